import ModbusModel.Model.Rtu
import ModbusModel.Lemmas.Bytes
/-
  CRC-16/MODBUS as `calc_crc` computes it is linear over GF(2): the register of a damaged frame is
  the register of the frame xor the register (from 0) of the error pattern.  A frame that ends
  with its own CRC leaves the register at 0; an error pattern confined to 16 consecutive bits
  does not.  Hence no burst of up to 16 bits – in a frame of any length – turns a valid frame
  into another valid frame.
-/
namespace Modbus

def sh (a : BitVec 16) : BitVec 16 := if a[0] then (a >>> 1) ^^^ 0xA001#16 else a >>> 1

theorem xor_cancel_mid (x y p : BitVec 16) : x ^^^ p ^^^ (y ^^^ p) = x ^^^ y := by
  ext i hi
  simp
  cases x[i] <;> cases y[i] <;> cases p[i] <;> rfl

theorem sh_xor (a b : BitVec 16) : sh (a ^^^ b) = sh a ^^^ sh b := by
  unfold sh
  cases ha : a[0] <;> cases hb : b[0] <;>
    simp [ha, hb, BitVec.ushiftRight_xor_distrib]
  · ac_rfl
  · ac_rfl
  · exact (xor_cancel_mid _ _ _).symm

theorem sh_ne (a : BitVec 16) (h : a ≠ 0) : sh a ≠ 0 := by
  unfold sh
  intro h0
  split at h0
  · have := congrArg (fun v : BitVec 16 => v[15]) h0
    simp at this
  · rename_i hb
    apply h
    ext i hi
    cases i with
    | zero => simpa using hb
    | succ j =>
      have := congrArg (fun v : BitVec 16 => v.getLsbD j) h0
      simp only [BitVec.getLsbD_ushiftRight, BitVec.getLsbD_zero] at this
      rw [Nat.add_comm] at this
      simpa [BitVec.getLsbD_eq_getElem hi] using this

theorem and_one_ne_zero (a : BitVec 16) : (a &&& 1#16 != 0#16) = a[0] := by
  cases h : a[0]
  · have : a &&& 1#16 = 0#16 := by
      ext i hi
      simp
      intro h1 h0
      subst h0
      rw [h] at h1
      exact absurd h1 (by simp)
    simp [this]
  · have : a &&& 1#16 ≠ 0#16 := by
      intro h0
      have := congrArg (fun v : BitVec 16 => v[0]) h0
      simp [h] at this
    simpa using this

theorem crcShift_toBitVec (c : UInt16) : (crcShift c).toBitVec = sh c.toBitVec := by
  unfold crcShift sh
  have h := and_one_ne_zero c.toBitVec
  have e : (c &&& 0x0001 != 0) = c.toBitVec[0] := by
    rw [← h]
    simp only [bne, BEq.beq]
    congr 1
    have : (c &&& 1 = 0) ↔ (c.toBitVec &&& 1#16 = 0#16) := by
      rw [← UInt16.toBitVec_inj]
      simp
    simp [this]
  rw [e]
  split <;> simp

theorem crcShift_xor (a b : UInt16) : crcShift (a ^^^ b) = crcShift a ^^^ crcShift b := by
  apply UInt16.toBitVec_inj.mp
  simp [crcShift_toBitVec, sh_xor]

theorem crcShift_ne_zero (a : UInt16) (h : a ≠ 0) : crcShift a ≠ 0 := by
  intro h0
  have h1 := congrArg UInt16.toBitVec h0
  rw [crcShift_toBitVec] at h1
  exact sh_ne a.toBitVec (fun e => h (UInt16.toBitVec_inj.mp (by simpa using e))) (by simpa using h1)

theorem crcShift_zero : crcShift 0 = 0 := by decide

/-- the eight shifts of one byte step -/
def sh8 (c : UInt16) : UInt16 :=
  crcShift (crcShift (crcShift (crcShift (crcShift (crcShift (crcShift (crcShift c)))))))

theorem crcByte_eq (c : UInt16) (x : UInt8) : crcByte c x = sh8 (c ^^^ x.toUInt16) := rfl

theorem sh8_xor (a b : UInt16) : sh8 (a ^^^ b) = sh8 a ^^^ sh8 b := by
  simp [sh8, crcShift_xor]

theorem sh8_ne_zero (a : UInt16) (h : a ≠ 0) : sh8 a ≠ 0 := by
  unfold sh8
  repeat apply crcShift_ne_zero
  exact h

theorem sh8_zero : sh8 0 = 0 := by decide

theorem xor4 (c d p q : UInt16) : (c ^^^ d) ^^^ (p ^^^ q) = (c ^^^ p) ^^^ (d ^^^ q) := by
  apply UInt16.toBitVec_inj.mp
  simp only [UInt16.toBitVec_xor]
  ext i hi
  simp
  cases c.toBitVec[i] <;> cases d.toBitVec[i] <;> cases p.toBitVec[i] <;> cases q.toBitVec[i] <;> rfl

theorem crcByte_xor (c d : UInt16) (x y : UInt8) :
    crcByte (c ^^^ d) (x ^^^ y) = crcByte c x ^^^ crcByte d y := by
  rw [crcByte_eq, crcByte_eq, crcByte_eq, ← sh8_xor, UInt8.toUInt16_xor, xor4]

/-- the CRC register after `data`, starting from `init` (`calc_crc` starts from 0xFFFF) -/
def reg (init : UInt16) (data : Bytes) : UInt16 := data.foldl crcByte init

/-- bytewise exclusive or: a frame and the error pattern laid over it -/
def xorL (m e : Bytes) : Bytes := List.zipWith (· ^^^ ·) m e

/-- **linearity**: the register of a damaged frame is the register of the frame, xor the
    register (from 0) of the error pattern -/
theorem reg_xor : ∀ (m e : Bytes) (c d : UInt16), m.length = e.length →
    reg (c ^^^ d) (xorL m e) = reg c m ^^^ reg d e := by
  intro m
  induction m with
  | nil => intro e c d h; cases e <;> simp_all [reg, xorL]
  | cons x xs ih =>
    intro e c d h
    cases e with
    | nil => simp at h
    | cons y ys =>
      simp only [List.length_cons, Nat.add_right_cancel_iff] at h
      have := ih ys (crcByte c x) (crcByte d y) h
      simpa [reg, xorL, crcByte_xor] using this

theorem reg_append (c : UInt16) (a b : Bytes) : reg c (a ++ b) = reg (reg c a) b := by
  simp [reg, List.foldl_append]

theorem crcByte_zero_zero : crcByte 0 0 = 0 := by decide

theorem reg_zeros (n : Nat) : reg 0 (List.replicate n 0) = 0 := by
  induction n with
  | zero => rfl
  | succ n ih => simpa [reg, List.replicate_succ, crcByte_zero_zero] using ih

theorem crcByte_ne_zero_of_state (d : UInt16) (h : d ≠ 0) : crcByte d 0 ≠ 0 := by
  rw [crcByte_eq]
  have : d ^^^ (0 : UInt8).toUInt16 = d := by
    apply UInt16.toBitVec_inj.mp; simp
  rw [this]
  exact sh8_ne_zero d h

/-- a non-zero register stays non-zero while undamaged bytes (error pattern 0) follow -/
theorem reg_zeros_ne (n : Nat) : ∀ d : UInt16, d ≠ 0 → reg d (List.replicate n 0) ≠ 0 := by
  induction n with
  | zero => intro d h; simpa [reg] using h
  | succ n ih =>
    intro d h
    have := ih (crcByte d 0) (crcByte_ne_zero_of_state d h)
    simpa [reg, List.replicate_succ] using this

/-- one damaged byte makes the register non-zero -/
theorem crcByte_err_ne_zero (e : UInt8) (h : e ≠ 0) : crcByte 0 e ≠ 0 := by
  revert h
  revert e
  apply forall_u8
  decide +kernel

/-- … and its high byte is non-zero, so that no second damaged byte can cancel it -/
theorem crcByte_err_high (e : UInt8) (h : e ≠ 0) : (crcByte 0 e) >>> 8 ≠ 0 := by
  revert h
  revert e
  apply forall_u8
  decide +kernel

theorem byte_high_zero : ∀ e : UInt8, e.toUInt16 >>> 8 = 0 := by
  apply forall_u8
  decide +kernel

theorem two_bytes_ne_zero (e1 e2 : UInt8) (h : e1 ≠ 0 ∨ e2 ≠ 0) : crcByte (crcByte 0 e1) e2 ≠ 0 := by
  by_cases h1 : e1 = 0
  · subst h1
    rw [crcByte_zero_zero]
    exact crcByte_err_ne_zero e2 (by simpa using h)
  · rw [crcByte_eq (crcByte 0 e1) e2]
    apply sh8_ne_zero
    intro h0
    have hh := crcByte_err_high e1 h1
    apply hh
    -- the xor is zero: the two are equal, and a byte has no high part
    have : crcByte 0 e1 = e2.toUInt16 := by
      apply UInt16.toBitVec_inj.mp
      have := congrArg UInt16.toBitVec h0
      simp only [UInt16.toBitVec_xor] at this
      have h2 := BitVec.xor_eq_zero_iff.mp this
      exact h2
    rw [this]
    exact byte_high_zero e2

/-! ### a frame that carries its own CRC leaves the register at zero -/

theorem rd16_shift_or (h l : UInt8) : rd16 h l = (h.toUInt16 <<< 8) ||| l.toUInt16 := by
  apply UInt16.toNat_inj.mp
  have hh := h.toNat_lt
  have hl := l.toNat_lt
  simp only [rd16, UInt16.toNat_or, UInt16.toNat_shiftLeft, UInt8.toNat_toUInt16, UInt16.toNat_ofNat']
  have e8 : (8 : UInt16).toNat % 16 = 8 := by decide
  rw [e8]
  have h1 : h.toNat <<< 8 % 65536 = h.toNat <<< 8 := by
    rw [Nat.shiftLeft_eq]; omega
  rw [h1, ← Nat.shiftLeft_add_eq_or_of_lt (by omega : l.toNat < 2 ^ 8), Nat.shiftLeft_eq]
  omega

theorem or_xor_low (h l : UInt8) : ((h.toUInt16 <<< 8) ||| l.toUInt16) ^^^ l.toUInt16 = h.toUInt16 <<< 8 := by
  apply UInt16.toBitVec_inj.mp
  simp only [UInt16.toBitVec_xor, UInt16.toBitVec_or, UInt16.toBitVec_shiftLeft, UInt8.toBitVec_toUInt16]
  ext i hi
  simp
  by_cases h8 : i < 8
  · simp [h8]
  · have hl0 : l.toBitVec.getLsbD i = false := BitVec.getLsbD_of_ge _ _ (by omega)
    simp [h8, hl0]

theorem sh8_high : ∀ h : UInt8, sh8 (h.toUInt16 <<< 8) = h.toUInt16 := by
  apply forall_u8
  decide +kernel

theorem xor_self16 (a : UInt16) : a ^^^ a = 0 := by
  apply UInt16.toBitVec_inj.mp; simp

/-- feeding the register its own low byte and then its high byte empties it -/
theorem crcByte_own_bytes (h l : UInt8) : crcByte (crcByte (rd16 h l) l) h = 0 := by
  rw [crcByte_eq (rd16 h l) l, rd16_shift_or, or_xor_low, sh8_high, crcByte_eq, xor_self16, sh8_zero]

theorem swap_bytes (h l : UInt8) : ((rd16 h l) >>> 8) ||| ((rd16 h l) <<< 8) = rd16 l h := by
  apply UInt16.toNat_inj.mp
  have hh := h.toNat_lt
  have hl := l.toNat_lt
  simp only [rd16, UInt16.toNat_or, UInt16.toNat_shiftLeft, UInt16.toNat_shiftRight, UInt16.toNat_ofNat']
  have e8 : (8 : UInt16).toNat % 16 = 8 := by decide
  rw [e8]
  have h0 : (h.toNat * 256 + l.toNat) % 65536 = h.toNat * 256 + l.toNat := by omega
  rw [h0]
  have h1 : (h.toNat * 256 + l.toNat) >>> 8 = h.toNat := by rw [Nat.shiftRight_eq_div_pow]; omega
  have h2 : (h.toNat * 256 + l.toNat) <<< 8 % 65536 = l.toNat <<< 8 := by
    rw [Nat.shiftLeft_eq, Nat.shiftLeft_eq]
    have p8 : (2 : Nat) ^ 8 = 256 := by simp
    rw [p8]
    have e : (h.toNat * 256 + l.toNat) * 256 = 65536 * h.toNat + l.toNat * 256 := by omega
    rw [e, Nat.mul_add_mod]
    exact Nat.mod_eq_of_lt (by omega)
  rw [h1, h2, Nat.or_comm, ← Nat.shiftLeft_add_eq_or_of_lt (by omega : h.toNat < 2 ^ 8), Nat.shiftLeft_eq]
  omega

/-- **a frame that ends with its own CRC leaves the register at zero** -/
theorem reg_valid (body : Bytes) : reg 0xFFFF (body ++ crcBytes body) = 0 := by
  rw [reg_append]
  unfold crcBytes calcCrc be16
  show reg (reg 0xFFFF body) _ = 0
  have hr : List.foldl crcByte 0xFFFF body = reg 0xFFFF body := rfl
  simp only [hr]
  generalize reg 0xFFFF body = r
  -- r as two bytes
  obtain ⟨h, l, rfl⟩ : ∃ h l, r = rd16 h l := ⟨_, _, (rd16_be16 r).symm⟩
  rw [swap_bytes]
  have e1 : UInt8.ofNat ((rd16 l h).toNat / 256) = l := by
    have hh := h.toNat_lt
    have hl := l.toNat_lt
    apply UInt8.toNat_inj.mp
    simp [rd16, UInt8.toNat_ofNat', UInt16.toNat_ofNat']
    omega
  have e2 : UInt8.ofNat ((rd16 l h).toNat % 256) = h := by
    have hh := h.toNat_lt
    have hl := l.toNat_lt
    apply UInt8.toNat_inj.mp
    simp [rd16, UInt8.toNat_ofNat', UInt16.toNat_ofNat']
  rw [e1, e2]
  simpa [reg] using crcByte_own_bytes h l


/-! ### three bytes: every burst of up to 16 bits -/

theorem crcByte_split (c : UInt16) (x : UInt8) : crcByte c x = sh8 c ^^^ crcByte 0 x := by
  have h := crcByte_xor c 0 0 x
  have e1 : c ^^^ 0 = c := by apply UInt16.toBitVec_inj.mp; simp
  have e2 : (0 : UInt8) ^^^ x = x := by apply UInt8.toBitVec_inj.mp; simp
  rw [e1, e2] at h
  rw [h, crcByte_eq c 0]
  have e3 : c ^^^ (0 : UInt8).toUInt16 = c := by apply UInt16.toBitVec_inj.mp; simp
  rw [e3]

theorem eq_of_xor_eq_zero (a b : UInt16) (h : a ^^^ b = 0) : a = b := by
  apply UInt16.toBitVec_inj.mp
  have := congrArg UInt16.toBitVec h
  simp only [UInt16.toBitVec_xor] at this
  exact BitVec.xor_eq_zero_iff.mp this

theorem xor_move (a b c : UInt16) (h : a ^^^ b = c) : b = a ^^^ c := by
  subst h
  apply UInt16.toBitVec_inj.mp
  simp only [UInt16.toBitVec_xor]
  rw [← BitVec.xor_assoc, BitVec.xor_self, BitVec.zero_xor]

/-- the byte whose table entry has a given high byte (the high bytes of the 256 table entries
    are pairwise different) -/
def invHiTable : List UInt8 := [0, 3, 6, 5, 15, 12, 9, 10, 30, 29, 24, 27, 17, 18, 23, 20, 63, 60, 57, 58, 48, 51, 54, 53, 33, 34, 39, 36, 46, 45, 40, 43, 126, 125, 120, 123, 113, 114, 119, 116, 96, 99, 102, 101, 111, 108, 105, 106, 65, 66, 71, 68, 78, 77, 72, 75, 95, 92, 89, 90, 80, 83, 86, 85, 255, 252, 249, 250, 240, 243, 246, 245, 225, 226, 231, 228, 238, 237, 232, 235, 192, 195, 198, 197, 207, 204, 201, 202, 222, 221, 216, 219, 209, 210, 215, 212, 129, 130, 135, 132, 142, 141, 136, 139, 159, 156, 153, 154, 144, 147, 150, 149, 190, 189, 184, 187, 177, 178, 183, 180, 160, 163, 166, 165, 175, 172, 169, 170, 254, 253, 248, 251, 241, 242, 247, 244, 224, 227, 230, 229, 239, 236, 233, 234, 193, 194, 199, 196, 206, 205, 200, 203, 223, 220, 217, 218, 208, 211, 214, 213, 128, 131, 134, 133, 143, 140, 137, 138, 158, 157, 152, 155, 145, 146, 151, 148, 191, 188, 185, 186, 176, 179, 182, 181, 161, 162, 167, 164, 174, 173, 168, 171, 1, 2, 7, 4, 14, 13, 8, 11, 31, 28, 25, 26, 16, 19, 22, 21, 62, 61, 56, 59, 49, 50, 55, 52, 32, 35, 38, 37, 47, 44, 41, 42, 127, 124, 121, 122, 112, 115, 118, 117, 97, 98, 103, 100, 110, 109, 104, 107, 64, 67, 70, 69, 79, 76, 73, 74, 94, 93, 88, 91, 81, 82, 87, 84]

def invHi (v : UInt16) : UInt8 := invHiTable.getD v.toNat 0

theorem invHi_table : ∀ x : UInt8, invHi ((crcByte 0 x) >>> 8) = x := by
  apply forall_u8
  decide +kernel

/-- an error pattern over three consecutive bytes lies within 16 consecutive bits (the line
    sends the least significant bit first: the burst starts at bit `k` of the first byte and
    ends before bit `k` of the third) -/
def within16 (e1 e3 : UInt8) : Bool :=
  (List.range 9).any fun k => e1.toNat % 2 ^ k == 0 && decide (e3.toNat < 2 ^ k)

/-- the only third byte that could cancel the register after `e1` and the matching second byte -/
def cancelThird (e1 : UInt8) : UInt8 :=
  (sh8 (crcByte 0 e1) ^^^ crcByte 0 (invHi (sh8 (crcByte 0 e1) >>> 8))).toUInt8

theorem cancelThird_not_within : ∀ e1 : UInt8, e1 ≠ 0 → within16 e1 (cancelThird e1) = false := by
  apply forall_u8
  decide +kernel

theorem shr8_xor (a b : UInt16) : (a ^^^ b) >>> 8 = (a >>> 8) ^^^ (b >>> 8) := by
  apply UInt16.toBitVec_inj.mp
  simp [BitVec.ushiftRight_xor_distrib]

theorem sh8_eq_zero (a : UInt16) (h : sh8 a = 0) : a = 0 := by
  cases Decidable.em (a = 0) with
  | inl h0 => exact h0
  | inr h0 => exact absurd h (sh8_ne_zero a h0)

theorem three_bytes_ne_zero (e1 e2 e3 : UInt8) (hb : within16 e1 e3 = true)
    (hne : e1 ≠ 0 ∨ e2 ≠ 0 ∨ e3 ≠ 0) : crcByte (crcByte (crcByte 0 e1) e2) e3 ≠ 0 := by
  by_cases h1 : e1 = 0
  · subst h1
    rw [crcByte_zero_zero]
    exact two_bytes_ne_zero e2 e3 (by simpa using hne)
  · intro hz
    rw [crcByte_eq] at hz
    have hx := eq_of_xor_eq_zero _ _ (sh8_eq_zero _ hz)
    rw [crcByte_split] at hx
    -- T e2 = U ^^^ e3
    have ht := xor_move _ _ _ hx
    -- high bytes: e2 is determined by e1
    have hhi : (crcByte 0 e2) >>> 8 = sh8 (crcByte 0 e1) >>> 8 := by
      rw [ht, shr8_xor, byte_high_zero]
      apply UInt16.toBitVec_inj.mp; simp
    have he2 : e2 = invHi (sh8 (crcByte 0 e1) >>> 8) := by
      rw [← hhi, invHi_table]
    -- … and so is e3
    have he3 : e3 = cancelThird e1 := by
      unfold cancelThird
      rw [← he2]
      have : e3.toUInt16 = sh8 (crcByte 0 e1) ^^^ crcByte 0 e2 := by
        rw [ht]
        apply UInt16.toBitVec_inj.mp
        simp only [UInt16.toBitVec_xor]
        rw [← BitVec.xor_assoc, BitVec.xor_self, BitVec.zero_xor]
      rw [← this]
      simp
    rw [he3, cancelThird_not_within e1 h1] at hb
    exact absurd hb (by simp)

/-! ### error patterns laid over a frame -/

/-- `i` undamaged bytes, the damaged bytes `mid`, `j` undamaged bytes -/
def pattern (i : Nat) (mid : Bytes) (j : Nat) : Bytes := List.replicate i 0 ++ mid ++ List.replicate j 0

theorem pattern_length (i : Nat) (mid : Bytes) (j : Nat) : (pattern i mid j).length = i + mid.length + j := by
  simp [pattern]; omega

theorem reg_pattern (i j : Nat) (mid : Bytes) (h : reg 0 mid ≠ 0) : reg 0 (pattern i mid j) ≠ 0 := by
  unfold pattern
  rw [reg_append, reg_append, reg_zeros]
  exact reg_zeros_ne j _ h

/-- **a damaged frame is not a valid frame**: lay an error pattern whose own register is not 0
    over a frame that ends with its CRC – the result does not end with *its* CRC -/
theorem damaged_never_valid (body body' : Bytes) (i j : Nat) (mid : Bytes)
    (hlen : (body ++ crcBytes body).length = i + mid.length + j) (hmid : reg 0 mid ≠ 0) :
    xorL (body ++ crcBytes body) (pattern i mid j) ≠ body' ++ crcBytes body' := by
  intro h
  have h1 := congrArg (reg 0xFFFF) h
  rw [reg_valid body'] at h1
  have e0 : (0xFFFF : UInt16) = 0xFFFF ^^^ 0 := by decide
  rw [e0, reg_xor _ _ _ _ (by rw [hlen, pattern_length]), reg_valid body] at h1
  have : reg 0 (pattern i mid j) = 0 := by
    have e1 : (0 : UInt16) ^^^ reg 0 (pattern i mid j) = reg 0 (pattern i mid j) := by
      apply UInt16.toBitVec_inj.mp; simp
    rw [e1] at h1; exact h1
  exact reg_pattern i j mid hmid this


/-! ### two damaged bits -/

/-- the register after `n` undamaged bytes -/
theorem reg_zeros_succ (n : Nat) (s : UInt16) : reg s (List.replicate (n + 1) 0) = reg (sh8 s) (List.replicate n 0) := by
  have e3 : s ^^^ (0 : UInt8).toUInt16 = s := by apply UInt16.toBitVec_inj.mp; simp
  simp [reg, List.replicate_succ, crcByte_eq, e3]

/-- the single-bit table entries -/
def bitEntry (k : Nat) : UInt16 := crcByte 0 ((1 : UInt8) <<< k.toUInt8)

/-- for `n` steps the orbit of `s` under the byte step stays away from the eight single-bit entries -/
def orbitAvoids : Nat → UInt16 → Bool
  | 0, _ => true
  | n + 1, s => (List.range 8).all (fun k => sh8 s != bitEntry k) && orbitAvoids n (sh8 s)

theorem orbitAvoids_spec : ∀ (n : Nat) (s : UInt16), orbitAvoids n s = true →
    ∀ m, m < n → ∀ k, k < 8 → sh8 (reg s (List.replicate m 0)) ≠ bitEntry k := by
  intro n
  induction n with
  | zero => intro s _ m hm; omega
  | succ n ih =>
    intro s h m hm k hk
    simp only [orbitAvoids, Bool.and_eq_true, List.all_eq_true] at h
    cases m with
    | zero =>
      have := h.1 k (by simp; omega)
      simpa [reg] using this
    | succ m =>
      rw [reg_zeros_succ]
      exact ih (sh8 s) h.2 m (by omega) k hk

theorem orbits_ok : ∀ k : Fin 8, orbitAvoids 300 (bitEntry k.val) = true := by decide +kernel

/-- two damaged bits in different bytes, up to 300 bytes apart -/
theorem two_bits_ne_zero (k1 k2 : Fin 8) (m : Nat) (hm : m < 300) :
    reg 0 ([(1 : UInt8) <<< k1.val.toUInt8] ++ List.replicate m 0 ++ [(1 : UInt8) <<< k2.val.toUInt8]) ≠ 0 := by
  rw [reg_append, reg_append]
  have h1 : reg 0 [(1 : UInt8) <<< k1.val.toUInt8] = bitEntry k1.val := rfl
  rw [h1]
  show crcByte (reg (bitEntry k1.val) (List.replicate m 0)) _ ≠ 0
  rw [crcByte_split]
  intro h0
  have := eq_of_xor_eq_zero _ _ h0
  exact orbitAvoids_spec 300 _ (orbits_ok k1) m hm k2.val k2.isLt this

end Modbus
