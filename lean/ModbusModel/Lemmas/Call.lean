import ModbusModel.Model.Client
import ModbusModel.Lemmas.Chunking
import ModbusModel.Lemmas.Client
import ModbusModel.Lemmas.Framed
/-
  A call on a healthy client over a transport that takes the request: the reply frame, cut
  into reads in any way, comes back as the verdict on exactly that reply.
-/
namespace Modbus

theorem pollFlush_all (frame : Bytes) (hne : frame ≠ []) (t : Transport)
    (h1 : t.writes = []) (h2 : t.flushes = []) :
    pollFlush frame t = (.ready, [], t, [.write frame]) := by
  unfold pollFlush
  have hl : frame.length + 1 = (frame.length - 1 + 1) + 1 := by
    have : 0 < frame.length := List.length_pos_iff.mpr hne
    omega
  rw [hl]
  simp [pollFlushFuel, hne, h1, h2]

theorem awaitFlush_all (frame : Bytes) (hne : frame ≠ []) (n : Nat) (t : Transport) (b : Budget)
    (effs : List Effect) (h1 : t.writes = []) (h2 : t.flushes = []) :
    awaitFlush (n + 1) frame t b effs = (.done none, [], t, b, effs ++ [.write frame]) := by
  unfold awaitFlush
  rw [pollFlush_all frame hne t h1 h2]

variable {σ ι : Type} {D : Decoder σ ι}

/-- with an unlimited budget `awaitNextB` is `awaitNext` -/
theorem awaitNextB_item (n : Nat) : ∀ (s : σ) (r : ReadFrame) (evs : List ReadEv) (x : ι) (s' : σ) (r' : ReadFrame)
    (evs' : List ReadEv), awaitNextFuel D n s r evs = (.item x, s', r', evs') →
    awaitNextB D n s r evs none = (.done (.item x), s', r', evs', none) := by
  induction n with
  | zero => intro s r evs x s' r' evs' h; simp [awaitNextFuel] at h
  | succ n ih =>
    intro s r evs x s' r' evs' h
    unfold awaitNextFuel at h
    unfold awaitNextB
    rcases hp : pollNext D s r evs with ⟨p, s1, r1, evs1⟩
    rw [hp] at h
    cases p with
    | pending =>
      simp only at h ⊢
      simp only [Budget.tick]
      exact ih s1 r1 evs1 x s' r' evs' h
    | item y => simp only at h ⊢; simp only [Prod.mk.injEq] at h; obtain ⟨h1, h2, h3, h4⟩ := h; cases h1; subst h2 h3 h4; rfl
    | blocked => simp at h
    | done => simp at h
    | error k => simp at h
    | panic => simp at h

/-- **a call returns the verdict on the reply that arrives**: healthy connected client, write
    buffer empty, the transport takes the request, and the bytes that arrive – in any
    fragmentation, with any `Pending`s – start with a valid frame of the client codec: the call
    writes exactly its request frame and returns `classify` of that frame's header and PDU;
    afterwards the client is healthy again and holds exactly the bytes after the frame. -/
theorem call_returns_reply (F : Framing (clientDecoder k)) (c : Client) (f : ClientFramed) (req : Request)
    (t : Transport) (reply tail frame : Bytes)
    (hk : c.kind = k) (hf : c.framed = some f) (hw : f.wbuf = [])
    (he : f.read.hasErrored = false) (hq : f.read.eof = false)
    (htw : t.writes = []) (htf : t.flushes = [])
    (hfeed : ∀ e ∈ t.reads, e.isFeed = true)
    (hv : F.Valid reply) (hne : reply ≠ []) (hdata : dataOf t.reads = reply ++ tail)
    (henc : clientEncode k (stampedHdr c) req = .ok frame) (hfne : frame ≠ []) :
    ∃ c' t', c.call req t none
        = (.done (classify (stampedHdr c) req.functionCode (F.item reply).1 (F.item reply).2), c', t', [.write frame])
      ∧ (∃ f', c'.framed = some f' ∧ f'.wbuf = [] ∧ f'.read.hasErrored = false ∧ f'.read.eof = false
          ∧ f'.read.buffer ++ dataOf t'.reads = tail)
      ∧ t'.writes = [] ∧ t'.flushes = [] := by
  let r0 : ReadFrame := { f.read with buffer := [] }
  have inv : FrameInv r0 reply := ⟨he, hq, fun _ => ⟨List.nil_prefix, fun e => hne e.symm⟩⟩
  have hd0 : r0.buffer ++ dataOf t.reads = reply ++ tail := by simpa [r0] using hdata
  obtain ⟨s', r', evs', g1, g2, g3, g4, g5, g6, _⟩ :=
    next_delivers_fuel F tail (t.reads.length + 1) t.reads f.fd r0 reply hv (by omega) hfeed inv hd0
  obtain ⟨rh, rr, hitem⟩ : ∃ rh rr, F.item reply = (rh, rr) := ⟨_, _, rfl⟩
  rw [hitem] at g1
  have g1' := awaitNextB_item (D := clientDecoder k) _ _ _ _ _ _ _ _ g1
  have hready : awaitReady ([] : Bytes) t none = (.done none, [], t, none, []) := by
    simp [awaitReady, BACKPRESSURE_BOUNDARY]
  have hflush : awaitFlush (t.writes.length + t.flushes.length + 1) frame t none []
      = (.done none, [], t, none, [.write frame]) := by
    simpa using awaitFlush_all frame hfne (t.writes.length + t.flushes.length) t none [] htw htf
  refine ⟨{ (match c.kind with | .tcp => { c with nextTid := c.nextTid + 1 } | .rtu => c) with
              framed := some { read := r', wbuf := [], fd := s' } },
    { t with reads := evs' }, ?_, ⟨{ read := r', wbuf := [], fd := s' }, rfl, rfl, g4, g5, g2⟩, htw, htf⟩
  · unfold Client.call
    simp only [stampedHdr] at henc ⊢
    cases k with
    | tcp =>
      simp only [hk] at henc ⊢
      simp [hf, hw, hready, henc, hflush, g1', hitem, r0]
    | rtu =>
      simp only [hk] at henc ⊢
      simp [hf, hw, hready, henc, hflush, g1', hitem, r0]

/-- the state of a connected client between two calls on a transport that takes every write -/
structure Ready (c : Client) (t : Transport) (incoming : Bytes) : Prop where
  connected : ∃ f, c.framed = some f ∧ f.wbuf = [] ∧ f.read.hasErrored = false ∧ f.read.eof = false
  writes : t.writes = []
  flushes : t.flushes = []
  feeds : ∀ e ∈ t.reads, e.isFeed = true
  data : dataOf t.reads = incoming

/-- generic form: the reply is any frame of the client framing -/
theorem call_generic {k : Kind} (F : Framing (clientDecoder k)) (c : Client) (req : Request) (t : Transport)
    (reply tail frame : Bytes) (hk : c.kind = k) (hr : Ready c t (reply ++ tail))
    (hv : F.Valid reply) (hne : reply ≠ [])
    (henc : clientEncode k (stampedHdr c) req = .ok frame) (hfne : frame ≠ []) :
    ∃ c' t', c.call req t none
        = (.done (classify (stampedHdr c) req.functionCode (F.item reply).1 (F.item reply).2), c', t', [.write frame])
      ∧ (∃ f', c'.framed = some f' ∧ f'.wbuf = [] ∧ f'.read.hasErrored = false ∧ f'.read.eof = false
          ∧ f'.read.buffer ++ dataOf t'.reads = tail)
      ∧ t'.writes = [] ∧ t'.flushes = [] := by
  obtain ⟨f, hf, hw, he, hq⟩ := hr.connected
  exact call_returns_reply F c f req t reply tail frame hk hf hw he hq hr.writes hr.flushes hr.feeds hv hne hr.data henc hfne

/-! ### a transport that takes every write keeps the client's write side clean -/

theorem pollFlush_takes_all (w : Bytes) (t : Transport) (h1 : t.writes = []) (h2 : t.flushes = []) :
    ∃ e, pollFlush w t = (.ready, [], t, e) := by
  by_cases hw : w = []
  · subst hw
    exact ⟨[], by simp [pollFlush, pollFlushFuel, h2]⟩
  · exact ⟨_, pollFlush_all w hw t h1 h2⟩

theorem awaitFlush_takes_all (w : Bytes) (n : Nat) (t : Transport) (b : Budget)
    (effs : List Effect) (h1 : t.writes = []) (h2 : t.flushes = []) :
    ∃ e, awaitFlush (n + 1) w t b effs = (.done none, [], t, b, e) := by
  obtain ⟨e, he⟩ := pollFlush_takes_all w t h1 h2
  exact ⟨effs ++ e, by unfold awaitFlush; rw [he]⟩

/-- on a transport that takes every write at once, a call – whatever its outcome, wherever it is
    abandoned – leaves the write buffer empty and the transport as willing as before -/
theorem call_wclean (c : Client) (req : Request) (t : Transport) (b : Budget)
    (hw : c.wbuf = []) (h1 : t.writes = []) (h2 : t.flushes = []) :
    (c.call req t b).2.1.wbuf = [] ∧ (c.call req t b).2.2.1.writes = [] ∧ (c.call req t b).2.2.1.flushes = [] := by
  unfold Client.call
  split
  · exact ⟨hw, h1, h2⟩
  · cases hf : c.framed with
    | none => cases hk : c.kind <;> simp [hf, Client.wbuf, h1, h2]
    | some f =>
      have hwf : f.wbuf = [] := by simpa [Client.wbuf, hf] using hw
      have hready : awaitReady ([] : Bytes) t b = (.done none, [], t, b, []) := by
        simp [awaitReady, BACKPRESSURE_BOUNDARY]
      cases hk : c.kind <;> simp only [hf, hk, hwf, hready]
      all_goals (
        split
        · simp [Client.wbuf, h1, h2]
        · simp [Client.wbuf, h1, h2]
        · rename_i frame _
          obtain ⟨e, he⟩ := awaitFlush_takes_all ([] ++ frame) (t.writes.length + t.flushes.length) t b [] h1 h2
          rw [he]
          simp only
          generalize awaitNextB _ _ _ _ _ _ = res
          rcases res with ⟨o, fd, r, evs, b'⟩
          cases o with
          | abandoned => simp [Client.wbuf, h1, h2]
          | blocked => simp [Client.wbuf, h1, h2]
          | done p => cases p <;> simp [Client.wbuf, h1, h2])

end Modbus

namespace Modbus

theorem awaitNextB_ne_panic {σ ι} (D : Decoder σ ι) (h : D.NoPanic) :
    ∀ (n : Nat) (s : σ) (r : ReadFrame) (evs : List ReadEv) (b : Budget),
      (awaitNextB D n s r evs b).1 ≠ .done .panic := by
  intro n
  induction n with
  | zero => intro s r evs b; simp [awaitNextB]
  | succ n ih =>
    intro s r evs b
    unfold awaitNextB
    have hp := pollNext_ne_panic D h evs s r
    rcases hq : pollNext D s r evs with ⟨p, s1, r1, evs1⟩
    rw [hq] at hp
    cases p with
    | pending =>
      simp only
      cases b.tick with
      | none => simp
      | some b' => exact ih s1 r1 evs1 b'
    | panic => exact absurd rfl hp
    | blocked => simp
    | item x => simp
    | done => simp
    | error k => simp

end Modbus

namespace Modbus

theorem awaitNextB_yields {σ ι} (D : Decoder σ ι) (x : ι) :
    ∀ (n : Nat) (s : σ) (r : ReadFrame) (evs : List ReadEv) (b : Budget),
      (awaitNextB D n s r evs b).1 = .done (.item x) → D.Yields x := by
  intro n
  induction n with
  | zero => intro s r evs b h; simp [awaitNextB] at h
  | succ n ih =>
    intro s r evs b h
    unfold awaitNextB at h
    have hp := pollNext_item D x evs s r
    rcases hq : pollNext D s r evs with ⟨p, s1, r1, evs1⟩
    rw [hq] at hp h
    cases p with
    | pending =>
      simp only at h
      cases hb : b.tick with
      | none => simp [hb] at h
      | some b' => rw [hb] at h; exact ih s1 r1 evs1 b' h
    | item y =>
      simp only [Outcome.done.injEq, Polled.item.injEq] at h
      subst h
      exact hp rfl
    | panic => simp at h
    | blocked => simp at h
    | done => simp at h
    | error k => simp at h

/-- what the client decoders yield is a header and a PDU the response decoder accepted -/
theorem clientDecoder_yields (k : Kind) (rh : Hdr) (res : ResponseResult)
    (h : (clientDecoder k).Yields (rh, res)) : ∃ pdu, decodeResponsePdu pdu = .ok res := by
  obtain ⟨s, buf, s', b', hd⟩ := h
  cases k with
  | tcp =>
    simp only [clientDecoder, tcpClientDecode] at hd
    split at hd <;> simp [Res.map] at hd
    rename_i hdr pdu _ _
    cases hp : decodeResponsePdu pdu with
    | ok r => rw [hp] at hd; simp at hd; exact ⟨pdu, by rw [hp, hd.1.2]⟩
    | err e => rw [hp] at hd; simp at hd
    | panic => rw [hp] at hd; simp at hd
  | rtu =>
    simp only [clientDecoder, rtuClientDecode] at hd
    split at hd <;> simp [Res.map] at hd
    rename_i slave pdu _ _ _
    cases hp : decodeResponsePdu pdu with
    | ok r => rw [hp] at hd; simp at hd; exact ⟨pdu, by rw [hp, hd.1.2]⟩
    | err e => rw [hp] at hd; simp at hd
    | panic => rw [hp] at hd; simp at hd

end Modbus
