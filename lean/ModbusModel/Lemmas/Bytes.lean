import ModbusModel.Model.Basic
/-
  Helper lemmas: finite quantification over bytes, big-endian words.
-/
namespace Modbus

/-- A decidable statement about all bytes follows from its 256 instances
    (which `decide +kernel` checks). -/
theorem forall_u8 {p : UInt8 → Prop} (h : ∀ n : Fin 256, p (UInt8.ofNat n.val)) : ∀ b, p b := by
  intro b
  have := h ⟨b.toNat, b.toNat_lt⟩
  simpa using this

theorem be16_length (w : UInt16) : (be16 w).length = 2 := rfl

@[simp] theorem rd16_be16 (w : UInt16) :
    rd16 (UInt8.ofNat (w.toNat / 256)) (UInt8.ofNat (w.toNat % 256)) = w := by
  have h := w.toNat_lt
  apply UInt16.toNat_inj.mp
  simp [rd16, UInt8.toNat_ofNat']
  omega

/-- every pair of bytes is the big-endian form of the word it reads as -/
theorem be16_rd16 (hi lo : UInt8) : be16 (rd16 hi lo) = [hi, lo] := by
  have h1 := hi.toNat_lt
  have h2 := lo.toNat_lt
  simp only [be16, rd16]
  have e : (UInt16.ofNat (hi.toNat * 256 + lo.toNat)).toNat = hi.toNat * 256 + lo.toNat := by
    simp [UInt16.toNat_ofNat']; omega
  rw [e]
  have a : (hi.toNat * 256 + lo.toNat) / 256 = hi.toNat := by omega
  have b : (hi.toNat * 256 + lo.toNat) % 256 = lo.toNat := by omega
  rw [a, b]
  simp

end Modbus
