import ModbusModel.Lemmas.Call
/-
  A transport fault in the middle of a reply: whatever strict prefix of a valid reply frame has
  arrived – in whatever fragmentation – when the transport fails or ends, `next().await` yields
  that fault (or "bytes remaining on stream" / end of stream), never an item.
-/
namespace Modbus

variable {σ ι : Type} {D : Decoder σ ι}

theorem awaitNextFuel_congr' (n : Nat) (s s' : σ) (r r' : ReadFrame) (a b : List ReadEv)
    (h : pollNext D s r a = pollNext D s' r' b) :
    awaitNextFuel D (n + 1) s r a = awaitNextFuel D (n + 1) s' r' b := by
  rw [awaitNextFuel, awaitNextFuel, h]

def Polled.toOutcome : Polled ι → Outcome (Polled ι)
  | .blocked => .blocked
  | p => .done p

/-- with an unlimited budget `awaitNextB` is `awaitNextFuel`, outcome for outcome -/
theorem awaitNextB_none (n : Nat) : ∀ (s : σ) (r : ReadFrame) (evs : List ReadEv),
    awaitNextB D n s r evs none =
      ((awaitNextFuel D n s r evs).1.toOutcome,
        (awaitNextFuel D n s r evs).2.1, (awaitNextFuel D n s r evs).2.2.1, (awaitNextFuel D n s r evs).2.2.2, none) := by
  induction n with
  | zero => intro s r evs; simp [awaitNextB, awaitNextFuel, Polled.toOutcome]
  | succ n ih =>
    intro s r evs
    unfold awaitNextB awaitNextFuel
    rcases hp : pollNext D s r evs with ⟨p, s1, r1, evs1⟩
    cases p with
    | pending => simp only [Budget.tick]; exact ih s1 r1 evs1
    | blocked => simp [Polled.toOutcome]
    | item x => simp [Polled.toOutcome]
    | done => simp [Polled.toOutcome]
    | error k => simp [Polled.toOutcome]
    | panic => simp [Polled.toOutcome]

/-- the reader while a reply is incomplete: healthy, and what it holds followed by `q` is a
    valid frame -/
structure Partial (F : Framing D) (r : ReadFrame) (q : Bytes) : Prop where
  noErr : r.hasErrored = false
  noEof : r.eof = false
  valid : F.Valid (r.buffer ++ q)

theorem pre_partial (F : Framing D) (s : σ) (r : ReadFrame) (q : Bytes) (hq : q ≠ []) (h : Partial F r q) :
    ∃ s' p', ReadFrame.pre D s r = (none, s', { r with isReadable := false, buffer := p' })
      ∧ F.Valid (p' ++ q) := by
  unfold ReadFrame.pre
  cases hr : r.isReadable with
  | false =>
    refine ⟨s, r.buffer, ?_, h.valid⟩
    have h1 := h.noErr
    cases r with
    | mk e i he b =>
      simp only at hr h1
      subst hr; subst h1
      simp
  | true =>
    obtain ⟨s', p', hdec, hv', _⟩ := F.waits s r.buffer q h.valid hq
    exact ⟨s', p', by simp [h.noErr, h.noEof, hdec], hv'⟩

/-- how `next().await` ends when the transport faults before the frame is complete -/
def FaultOutcome (fault : ReadEv) (p : Polled ι) : Prop :=
  match fault with
  | .err k => p = .error k
  | .eof => p = .done ∨ p = .error .other
  | _ => True

/-- **fault_mid_frame**: the bytes that have arrived (any fragmentation, any `Pending`s) stop
    short of a valid frame by `q ≠ []`; then the transport reports an error or the end of the
    stream: `next().await` returns exactly that error, resp. end-of-stream / "bytes remaining
    on stream" – never an item built from the partial frame -/
theorem awaitNextFuel_fault (F : Framing D) (fault : ReadEv) (rest : List ReadEv) (q : Bytes) (hq : q ≠ []) :
    ∀ (feeds : List ReadEv) (n : Nat) (s : σ) (r : ReadFrame),
      feeds.length < n → (∀ e ∈ feeds, e.isFeed = true) →
      Partial F r (dataOf feeds ++ q) →
      FaultOutcome fault (awaitNextFuel D n s r (feeds ++ fault :: rest)).1 := by
  intro feeds
  induction feeds with
  | nil =>
    intro n s r hn _ hp
    obtain ⟨n, rfl⟩ : ∃ m, n = m + 1 := ⟨n - 1, by omega⟩
    simp only [dataOf, List.nil_append] at hp ⊢
    obtain ⟨s1, p1, hpre, hv1⟩ := pre_partial F s r q hq hp
    cases fault with
    | pending => trivial
    | data bs => trivial
    | err k =>
      simp only [FaultOutcome]
      rw [awaitNextFuel, pollNext, hpre]
    | eof =>
      simp only [FaultOutcome]
      obtain ⟨s2, p2, hdec, _, _⟩ := F.waits s1 p1 q hv1 hq
      have hstep : pollNext D s r (.eof :: rest)
          = pollNext D s1 { r with isReadable := true, buffer := p1, eof := true } rest := by
        conv => lhs; unfold pollNext
        simp [hpre, hp.noEof]
      rw [awaitNextFuel, hstep]
      have hpre2 : (ReadFrame.pre D s1 { r with isReadable := true, buffer := p1, eof := true }).1 = some .done
          ∨ (ReadFrame.pre D s1 { r with isReadable := true, buffer := p1, eof := true }).1 = some (.error .other) := by
        unfold ReadFrame.pre Decoder.decodeEof
        by_cases he : p2.isEmpty
        · exact Or.inl (by simp [hp.noErr, hdec, he])
        · exact Or.inr (by simp [hp.noErr, hdec, he])
      rcases hpr : ReadFrame.pre D s1 { r with isReadable := true, buffer := p1, eof := true } with ⟨o, s', r'⟩
      rw [hpr] at hpre2
      simp only at hpre2
      cases rest with
      | nil => rw [pollNext, hpr]; rcases hpre2 with h | h <;> subst h <;> simp
      | cons e es => rw [pollNext, hpr]; rcases hpre2 with h | h <;> subst h <;> simp
  | cons e feeds ih =>
    intro n s r hn hfeed hp
    obtain ⟨n, rfl⟩ : ∃ m, n = m + 1 := ⟨n - 1, by omega⟩
    have hfeed' : ∀ x ∈ feeds, x.isFeed = true := fun x hx => hfeed x (by simp [hx])
    have hq' : dataOf (e :: feeds) ++ q ≠ [] := by simp [hq]
    obtain ⟨s1, p1, hpre, hv1⟩ := pre_partial F s r _ hq' hp
    cases e with
    | eof => have := hfeed .eof (by simp); simp [ReadEv.isFeed] at this
    | err k => have := hfeed (.err k) (by simp); simp [ReadEv.isFeed] at this
    | pending =>
      have hstep : pollNext D s r (.pending :: (feeds ++ fault :: rest))
          = (.pending, s1, { r with isReadable := false, buffer := p1 }, feeds ++ fault :: rest) := by
        rw [pollNext, hpre]
      rw [List.cons_append, awaitNextFuel, hstep]
      simp only [dataOf] at hv1
      exact ih n s1 _ (by simp at hn; omega) hfeed' ⟨hp.noErr, hp.noEof, hv1⟩
    | data c =>
      have hc : c ≠ [] := by
        have := hfeed (.data c) (by simp)
        simpa [ReadEv.isFeed] using this
      have hstep : pollNext D s r (.data c :: (feeds ++ fault :: rest))
          = pollNext D s1 { r with isReadable := true, buffer := p1 ++ c, eof := false } (feeds ++ fault :: rest) := by
        conv => lhs; unfold pollNext
        simp [hpre, hc]
      rw [List.cons_append, awaitNextFuel_congr' n _ _ _ _ _ _ hstep]
      simp only [dataOf, List.append_assoc] at hv1
      exact ih (n + 1) s1 _ (by simp at hn; omega) hfeed'
        ⟨hp.noErr, rfl, by simpa [List.append_assoc] using hv1⟩

end Modbus

namespace Modbus

/-- **a fault in the middle of a reply is a transport error** (whole call): a connected healthy
    client whose request the transport takes; the reply then arrives only in part – any strict
    prefix of a valid reply frame, in any fragmentation – before the transport reports an error
    or the end of the stream: the call returns a transport error of exactly that kind (end of
    stream: `BrokenPipe`, or "bytes remaining on stream"), never a result built from the part -/
theorem call_fault_mid_reply {k : Kind} (F : Framing (clientDecoder k)) (c : Client) (req : Request)
    (t : Transport) (feeds rest : List ReadEv) (fault : ReadEv) (q frame : Bytes)
    (hk : c.kind = k) (hr : ∃ f, c.framed = some f ∧ f.wbuf = [] ∧ f.read.hasErrored = false ∧ f.read.eof = false)
    (htw : t.writes = []) (htf : t.flushes = [])
    (hreads : t.reads = feeds ++ fault :: rest) (hfeed : ∀ e ∈ feeds, e.isFeed = true)
    (hq : q ≠ []) (hv : F.Valid (dataOf feeds ++ q))
    (henc : clientEncode k (stampedHdr c) req = .ok frame) (hfne : frame ≠ []) :
    match fault with
    | .err kk => (c.call req t none).1 = .done (.transport kk)
    | .eof => (c.call req t none).1 = .done (.transport .brokenPipe) ∨ (c.call req t none).1 = .done (.transport .other)
    | _ => True := by
  obtain ⟨f, hf, hw, he, hqe⟩ := hr
  let r0 : ReadFrame := { f.read with buffer := [] }
  have hp : Partial F r0 (dataOf feeds ++ q) := ⟨he, hqe, by simpa [r0] using hv⟩
  have key := awaitNextFuel_fault F fault rest q hq feeds (t.reads.length + 1) f.fd r0
    (by rw [hreads]; simp; omega) hfeed hp
  rw [← hreads] at key
  have hready : awaitReady ([] : Bytes) t none = (.done none, [], t, none, []) := by
    simp [awaitReady, BACKPRESSURE_BOUNDARY]
  have hflush : awaitFlush (t.writes.length + t.flushes.length + 1) frame t none []
      = (.done none, [], t, none, [.write frame]) := by
    simpa using awaitFlush_all frame hfne (t.writes.length + t.flushes.length) t none [] htw htf
  rcases hx : awaitNextFuel (clientDecoder k) (t.reads.length + 1) f.fd r0 t.reads with ⟨p, s', r', evs'⟩
  rw [hx] at key
  have hB := awaitNextB_none (D := clientDecoder k) (t.reads.length + 1) f.fd r0 t.reads
  rw [hx] at hB
  simp only at hB key
  cases fault with
  | pending => trivial
  | data bs => trivial
  | err kk =>
    simp only [FaultOutcome] at key
    subst key
    simp only
    unfold Client.call
    simp only [stampedHdr] at henc ⊢
    cases k with
    | tcp =>
      simp only [hk] at henc hB ⊢
      simp [hf, hw, hready, henc, hflush, hB, Polled.toOutcome, r0]
    | rtu =>
      simp only [hk] at henc hB ⊢
      simp [hf, hw, hready, henc, hflush, hB, Polled.toOutcome, r0]
  | eof =>
    simp only [FaultOutcome] at key
    simp only
    unfold Client.call
    simp only [stampedHdr] at henc ⊢
    rcases key with key | key <;> subst key <;> cases k <;> simp only [hk] at henc hB ⊢ <;>
      simp [hf, hw, hready, henc, hflush, hB, Polled.toOutcome, r0]

end Modbus
