import ModbusModel.Model.Rtu
import ModbusModel.Lemmas.Pdu
/-
  Lemmas about the RTU frame decoder: no panics, what a delivered frame is,
  bounded buffering, bounded record of dropped bytes.
-/
namespace Modbus

/-- the length tables: well-behaved length inference -/
structure LenFn (lenFn : Bytes → Res (Option Nat)) (maxPdu : Nat) : Prop where
  ne_panic : ∀ buf, lenFn buf ≠ .panic
  err_nonempty : ∀ buf k, lenFn buf = .err k → buf ≠ []
  bounded : ∀ buf n, lenFn buf = .ok (some n) → n ≤ maxPdu
  /-- "need more" is only answered for buffers shorter than the position it looks at -/
  none_short : ∀ buf, lenFn buf = .ok none → buf.length ≤ 10

theorem getElem?_none_length {α} (l : List α) (i : Nat) (h : l[i]? = none) : l.length ≤ i := by
  simpa using h

theorem requestPduLen_lenFn : LenFn requestPduLen 265 := by
  refine ⟨?_, ?_, ?_, ?_⟩
  · intro buf; unfold requestPduLen
    (repeat' split) <;> simp
  · intro buf k h hnil; subst hnil; simp [requestPduLen] at h
  · intro buf n h; unfold requestPduLen at h
    split at h
    · simp at h
    · (repeat' split at h) <;> simp at h <;> try omega
      all_goals (
        obtain ⟨bc, _, hbc⟩ := h
        have := bc.toNat_lt
        omega)
  · intro buf h; unfold requestPduLen at h
    split at h
    · rename_i h1; have := getElem?_none_length _ _ h1; omega
    · (repeat' split at h) <;> simp at h <;> omega

theorem responsePduLen_lenFn : LenFn responsePduLen 65538 := by
  refine ⟨?_, ?_, ?_, ?_⟩
  · intro buf; unfold responsePduLen
    (repeat' split) <;> simp
  · intro buf k h hnil; subst hnil; simp [responsePduLen] at h
  · intro buf n h; unfold responsePduLen at h
    split at h
    · simp at h
    · (repeat' split at h) <;> simp at h <;> try omega
      · obtain ⟨bc, _, hbc⟩ := h
        have := bc.toNat_lt
        omega
      · rename_i hi lo _ _
        have := (rd16 hi lo).toNat_lt
        omega
  · intro buf h; unfold responsePduLen at h
    split at h
    · rename_i h1; have := getElem?_none_length _ _ h1; omega
    · (repeat' split at h) <;> simp at h <;> try omega
      all_goals (
        rename_i h3
        by_cases hl : buf.length ≤ 10
        · exact hl
        · exfalso
          exact h3 (buf[2]'(by omega)) (buf[3]'(by omega))
            (List.getElem?_eq_getElem (by omega)) (List.getElem?_eq_getElem (by omega)))

/-- a buffer holding at least `n + 3` bytes splits into address, `n` PDU bytes, two CRC bytes, rest -/
theorem split_frame (buf : Bytes) (n : Nat) (h : n + 3 ≤ buf.length) :
    ∃ slave pdu hi lo rest, buf = slave :: pdu ++ [hi, lo] ++ rest ∧ pdu.length = n := by
  match buf, h with
  | slave :: tl, h =>
    have h1 : n + 2 ≤ tl.length := by simp at h; omega
    have hl : 2 ≤ (tl.drop n).length := by simp; omega
    match hd : tl.drop n, hl with
    | x :: y :: r, _ =>
      refine ⟨slave, tl.take n, x, y, r, ?_, by simp; omega⟩
      have e1 := (List.take_append_drop n tl).symm
      rw [hd] at e1
      simp
      exact e1

theorem frameDecode_on_split (fd : FrameDecoder) (slave : UInt8) (pdu : Bytes) (hi lo : UInt8) (rest : Bytes) :
    fd.decode (slave :: pdu ++ [hi, lo] ++ rest) pdu.length =
      if rd16 hi lo = calcCrc (slave :: pdu) then (.ok (some (slave, pdu)), { dropped := [] }, rest)
      else (.err .invalidData, fd, slave :: pdu ++ [hi, lo] ++ rest) := by
  unfold FrameDecoder.decode
  have hlen : ¬ (slave :: pdu ++ [hi, lo] ++ rest).length < 1 + pdu.length + 2 := by simp; omega
  simp only [hlen, if_false]
  have t1 : (slave :: pdu ++ [hi, lo] ++ rest).take (1 + pdu.length) = slave :: pdu := by
    have : 1 + pdu.length = (slave :: pdu).length := by simp; omega
    rw [this, List.append_assoc, List.take_left']; rfl
  have t2 : (slave :: pdu ++ [hi, lo] ++ rest).drop (1 + pdu.length) = [hi, lo] ++ rest := by
    have : 1 + pdu.length = (slave :: pdu).length := by simp; omega
    rw [this, List.append_assoc, List.drop_left']; rfl
  have t3 : (slave :: pdu ++ [hi, lo] ++ rest).drop (1 + pdu.length + 2) = rest := by
    have : 1 + pdu.length + 2 = (slave :: pdu ++ [hi, lo]).length := by simp; omega
    rw [this, List.drop_left']; rfl
  rw [t1, t2, t3]
  simp

theorem frameDecode_short (fd : FrameDecoder) (buf : Bytes) (n : Nat) (h : buf.length < n + 3) :
    fd.decode buf n = (.ok none, fd, buf) := by
  unfold FrameDecoder.decode
  have : buf.length < 1 + n + 2 := by omega
  simp [this]

/-- everything `FrameDecoder::decode` can do -/
theorem frameDecode_cases (fd : FrameDecoder) (buf : Bytes) (n : Nat) :
    (buf.length < n + 3 ∧ fd.decode buf n = (.ok none, fd, buf))
    ∨ (∃ slave pdu rest, buf = slave :: pdu ++ crcBytes (slave :: pdu) ++ rest ∧ pdu.length = n
        ∧ fd.decode buf n = (.ok (some (slave, pdu)), { dropped := [] }, rest))
    ∨ (n + 3 ≤ buf.length ∧ fd.decode buf n = (.err .invalidData, fd, buf)) := by
  by_cases h : buf.length < n + 3
  · exact Or.inl ⟨h, frameDecode_short fd buf n h⟩
  · obtain ⟨slave, pdu, hi, lo, rest, hb, hn⟩ := split_frame buf n (by omega)
    subst hb; subst hn
    rw [frameDecode_on_split]
    split
    · rename_i hc
      refine Or.inr (Or.inl ⟨slave, pdu, rest, ?_, rfl, rfl⟩)
      have : [hi, lo] = crcBytes (slave :: pdu) := by
        unfold crcBytes; rw [← hc, be16_rd16]
      rw [this]
    · exact Or.inr (Or.inr ⟨by omega, rfl⟩)

theorem frameDecode_ne_panic (fd : FrameDecoder) (buf : Bytes) (n : Nat) : (fd.decode buf n).1 ≠ .panic := by
  rcases frameDecode_cases fd buf n with ⟨_, h⟩ | ⟨_, _, _, _, _, h⟩ | ⟨_, h⟩ <;> simp [h]

/-- what one run of the retry loop can do to the buffer -/
structure LoopOutcome (maxPdu n : Nat) (fd : FrameDecoder) (buf : Bytes)
    (res : Res (Option (UInt8 × Bytes)) × FrameDecoder × Bytes) : Prop where
  ne_panic : res.1 ≠ .panic
  /-- the bytes dropped in front are at most one per retry; the rest is untouched -/
  shape : ∃ dropped : Bytes, dropped.length ≤ n ∧
    match res.1 with
    | .ok (some (slave, pdu)) =>
        buf = dropped ++ (slave :: pdu ++ crcBytes (slave :: pdu)) ++ res.2.2
    | .ok none => buf = dropped ++ res.2.2 ∧ res.2.2.length < maxPdu + 3
    | .err _ => buf = dropped ++ res.2.2 ∧ dropped.length = n
    | .panic => False
  dropped_bounded : fd.dropped.length ≤ MAX_FRAME_LEN → res.2.1.dropped.length ≤ MAX_FRAME_LEN

theorem recoverOnError_spec (fd : FrameDecoder) (b : UInt8) (rest : Bytes) :
    ∃ fd', fd.recoverOnError (b :: rest) = some (fd', rest)
      ∧ (fd.dropped.length ≤ MAX_FRAME_LEN → fd'.dropped.length ≤ MAX_FRAME_LEN) := by
  unfold FrameDecoder.recoverOnError
  refine ⟨_, rfl, ?_⟩
  intro h
  simp only
  split <;> simp [MAX_FRAME_LEN] at * <;> omega

theorem rtuDecodeLoop_outcome (lenFn : Bytes → Res (Option Nat)) (maxPdu : Nat) (hl : LenFn lenFn maxPdu)
    (hm : 8 ≤ maxPdu) (n : Nat) (fd : FrameDecoder) (buf : Bytes) :
    LoopOutcome maxPdu n fd buf (rtuDecodeLoop lenFn n fd buf) := by
  induction n generalizing fd buf with
  | zero =>
    unfold rtuDecodeLoop
    exact ⟨by simp, ⟨[], by simp, by simp⟩, fun h => h⟩
  | succ n ih =>
    unfold rtuDecodeLoop
    -- the step
    cases hlen : lenFn buf with
    | panic => exact absurd hlen (hl.ne_panic buf)
    | ok o =>
      cases o with
      | none =>
        simp only
        exact ⟨by simp, ⟨[], by simp, by simp; have := hl.none_short buf hlen; omega⟩, fun h => h⟩
      | some pduLen =>
        simp only
        have hb := hl.bounded buf pduLen hlen
        rcases frameDecode_cases fd buf pduLen with ⟨hs, h⟩ | ⟨slave, pdu, rest, hbuf, hn, h⟩ | ⟨hlong, h⟩
        · rw [h]; exact ⟨by simp, ⟨[], by simp, by simp; omega⟩, fun h => h⟩
        · rw [h]; exact ⟨by simp, ⟨[], by simp, by simp [hbuf]⟩, fun _ => by simp [MAX_FRAME_LEN]⟩
        · rw [h]
          simp only
          match buf, hlong with
          | b :: rest, _ =>
            obtain ⟨fd', hr, hd⟩ := recoverOnError_spec fd b rest
            rw [hr]
            simp only
            have := ih fd' rest
            refine ⟨this.ne_panic, ?_, fun h => this.dropped_bounded (hd h)⟩
            obtain ⟨dropped, hdl, hshape⟩ := this.shape
            refine ⟨b :: dropped, by simp; omega, ?_⟩
            revert hshape
            cases (rtuDecodeLoop lenFn n fd' rest).1 with
            | panic => simp
            | err k => simp
            | ok o =>
              cases o with
              | none => simp
              | some sp => obtain ⟨s, p⟩ := sp; simp
    | err k =>
      simp only
      have hne := hl.err_nonempty buf k hlen
      match buf, hne with
      | b :: rest, _ =>
        obtain ⟨fd', hr, hd⟩ := recoverOnError_spec fd b rest
        rw [hr]
        simp only
        have := ih fd' rest
        refine ⟨this.ne_panic, ?_, fun h => this.dropped_bounded (hd h)⟩
        obtain ⟨dropped, hdl, hshape⟩ := this.shape
        refine ⟨b :: dropped, by simp; omega, ?_⟩
        revert hshape
        cases (rtuDecodeLoop lenFn n fd' rest).1 with
        | panic => simp
        | err k => simp
        | ok o =>
          cases o with
          | none => simp
          | some sp => obtain ⟨s, p⟩ := sp; simp

end Modbus
