import ModbusModel.Lemmas.Coils
/-
  decode ∘ encode = id for requests, responses and exceptions.
-/
namespace Modbus

/-- function codes the request decoder has an arm for -/
def modelledCodes : List UInt8 := [0x01, 0x02, 0x05, 0x0F, 0x04, 0x03, 0x06, 0x10, 0x11, 0x16, 0x17]

/-- requests the decoder reproduces as they are: every typed request, and raw custom requests
    whose function code is below 0x80 and not one the decoder models -/
def Request.canonical : Request → Prop
  | .custom fc _ => fc < 0x80 ∧ fc ∉ modelledCodes
  | _ => True

theorem coil_roundtrip (b : Bool) :
    coilToBool (rd16 (UInt8.ofNat ((boolToCoil b).toNat / 256)) (UInt8.ofNat ((boolToCoil b).toNat % 256))) = some b := by
  cases b <;> decide

theorem rd16_split (n : Nat) (h : n < 65536) :
    (rd16 (UInt8.ofNat (n / 256)) (UInt8.ofNat (n % 256))).toNat = n := by
  simp [rd16, UInt16.toNat_ofNat', UInt8.toNat_ofNat']
  omega

theorem dispatch_default {α} (fc : UInt8) (table : List (UInt8 × (Unit → α))) (dflt : Unit → α)
    (h : table.lookup fc = none) : dispatch fc table dflt = dflt () := by
  simp [dispatch, h]

theorem requestArms_lookup_none (fc : UInt8) (bytes rest : Bytes) (h : fc ∉ modelledCodes) :
    (requestArms bytes rest).lookup fc = none := by
  simp only [modelledCodes, List.mem_cons, List.mem_nil_iff, or_false, not_or] at h
  obtain ⟨h1, h2, h3, h4, h5, h6, h7, h8, h9, h10, h11⟩ := h
  simp [requestArms, List.lookup, beq_eq_false_iff_ne.mpr h1, beq_eq_false_iff_ne.mpr h2,
    beq_eq_false_iff_ne.mpr h3, beq_eq_false_iff_ne.mpr h4, beq_eq_false_iff_ne.mpr h5,
    beq_eq_false_iff_ne.mpr h6, beq_eq_false_iff_ne.mpr h7, beq_eq_false_iff_ne.mpr h8,
    beq_eq_false_iff_ne.mpr h9, beq_eq_false_iff_ne.mpr h10, beq_eq_false_iff_ne.mpr h11]

/-- **request round trip**: every canonical request within the PDU limit decodes from its
    own encoding to itself -/
theorem decodeRequest_encode (r : Request) (hs : requestPduSizeRaw r ≤ 253) (hc : r.canonical) :
    decodeRequest (encodeRequestPdu r) = .ok r := by
  cases r with
  | readCoils a q => simp [encodeRequestPdu, be16, decodeRequest, dispatch, requestArms, List.lookup, dec2]
  | readDiscreteInputs a q => simp [encodeRequestPdu, be16, decodeRequest, dispatch, requestArms, List.lookup, dec2]
  | readInputRegisters a q => simp [encodeRequestPdu, be16, decodeRequest, dispatch, requestArms, List.lookup, dec2]
  | readHoldingRegisters a q => simp [encodeRequestPdu, be16, decodeRequest, dispatch, requestArms, List.lookup, dec2]
  | writeSingleRegister a w => simp [encodeRequestPdu, be16, decodeRequest, dispatch, requestArms, List.lookup, dec2]
  | maskWriteRegister a am om => simp [encodeRequestPdu, be16, decodeRequest, dispatch, requestArms, List.lookup, dec3]
  | reportServerId => simp [encodeRequestPdu, decodeRequest, dispatch, requestArms, List.lookup]
  | writeSingleCoil a b =>
    simp [encodeRequestPdu, be16, decodeRequest, dispatch, requestArms, List.lookup, decCoil]
    cases b <;> simp [coilToBool, boolToCoil]
  | custom fc data =>
    obtain ⟨hlt, hnm⟩ := hc
    simp [encodeRequestPdu, decodeRequest, dispatch_default _ _ _ (requestArms_lookup_none fc _ _ hnm), hlt]
  | writeMultipleRegisters a ws =>
    have hl : ws.length ≤ 123 := by simp [requestPduSizeRaw] at hs; omega
    have e1 : (UInt16.ofNat ws.length).toNat = ws.length := by simp [UInt16.toNat_ofNat']; omega
    have e2 : (UInt8.ofNat (ws.length * 2)).toNat = ws.length * 2 := by simp [UInt8.toNat_ofNat']; omega
    have hlen : (encodeRequestPdu (.writeMultipleRegisters a ws)).length ≤ 253 := by
      rw [encodeRequestPdu_length]; exact hs
    simp only [encodeRequestPdu, be16, List.cons_append, List.nil_append, List.append_assoc] at hlen ⊢
    simp only [decodeRequest, dispatch, requestArms, List.lookup]
    simp only [show ((16 : UInt8) == 1) = false by decide, show ((16 : UInt8) == 2) = false by decide,
      show ((16 : UInt8) == 5) = false by decide, show ((16 : UInt8) == 15) = false by decide,
      show ((16 : UInt8) == 4) = false by decide, show ((16 : UInt8) == 3) = false by decide,
      show ((16 : UInt8) == 6) = false by decide, show ((16 : UInt8) == 16) = true by decide]
    simp only [decWriteMultipleRegisters, MAX_PDU_SIZE]
    have hnot : ¬ (List.length (16 :: UInt8.ofNat (a.toNat / 256) :: UInt8.ofNat (a.toNat % 256)
        :: UInt8.ofNat ((UInt16.ofNat ws.length).toNat / 256) :: UInt8.ofNat ((UInt16.ofNat ws.length).toNat % 256)
        :: UInt8.ofNat (ws.length * 2) :: encWords ws) > 253) := by omega
    have hw := encWords_length ws
    have r1 := rd16_split ws.length (by omega)
    have := readWords_encWords ws []
    simp only [List.append_nil] at this
    have hnot' : ¬ (253 < (encWords ws).length + 1 + 1 + 1 + 1 + 1 + 1) := by omega
    simp [hnot', e1, e2, r1, this]
    omega
  | readWriteMultipleRegisters ra q wa ws =>
    have hl : ws.length ≤ 121 := by simp [requestPduSizeRaw] at hs; omega
    have e1 : (UInt16.ofNat ws.length).toNat = ws.length := by simp [UInt16.toNat_ofNat']; omega
    have e2 : (UInt8.ofNat (ws.length * 2)).toNat = ws.length * 2 := by simp [UInt8.toNat_ofNat']; omega
    have hlen : (encodeRequestPdu (.readWriteMultipleRegisters ra q wa ws)).length ≤ 253 := by
      rw [encodeRequestPdu_length]; exact hs
    simp only [encodeRequestPdu, be16, List.cons_append, List.nil_append, List.append_assoc] at hlen ⊢
    simp only [decodeRequest, dispatch, requestArms, List.lookup]
    simp only [show ((23 : UInt8) == 1) = false by decide, show ((23 : UInt8) == 2) = false by decide,
      show ((23 : UInt8) == 5) = false by decide, show ((23 : UInt8) == 15) = false by decide,
      show ((23 : UInt8) == 4) = false by decide, show ((23 : UInt8) == 3) = false by decide,
      show ((23 : UInt8) == 6) = false by decide, show ((23 : UInt8) == 16) = false by decide,
      show ((23 : UInt8) == 17) = false by decide, show ((23 : UInt8) == 22) = false by decide,
      show ((23 : UInt8) == 23) = true by decide]
    simp only [decReadWriteMultipleRegisters, MAX_PDU_SIZE]
    have hnot : ¬ (List.length (23 :: UInt8.ofNat (ra.toNat / 256) :: UInt8.ofNat (ra.toNat % 256)
        :: UInt8.ofNat (q.toNat / 256) :: UInt8.ofNat (q.toNat % 256)
        :: UInt8.ofNat (wa.toNat / 256) :: UInt8.ofNat (wa.toNat % 256)
        :: UInt8.ofNat ((UInt16.ofNat ws.length).toNat / 256) :: UInt8.ofNat ((UInt16.ofNat ws.length).toNat % 256)
        :: UInt8.ofNat (ws.length * 2) :: encWords ws) > 253) := by omega
    have hw := encWords_length ws
    have r1 := rd16_split ws.length (by omega)
    have := readWords_encWords ws []
    simp only [List.append_nil] at this
    have hnot' : ¬ (253 < (encWords ws).length + 1 + 1 + 1 + 1 + 1 + 1 + 1 + 1 + 1 + 1) := by omega
    simp [hnot', e1, e2, r1, this]
    omega
  | writeMultipleCoils a cs =>
    have hp : packedCoilsSize cs.length ≤ 247 := by simp [requestPduSizeRaw] at hs; omega
    have hl : cs.length ≤ 1976 := by simp [packedCoilsSize] at hp; omega
    have e1 : (UInt16.ofNat cs.length).toNat = cs.length := by simp [UInt16.toNat_ofNat']; omega
    have e2 : (UInt8.ofNat (packedCoilsSize cs.length)).toNat = packedCoilsSize cs.length := by
      simp [UInt8.toNat_ofNat']; omega
    have hlen : (encodeRequestPdu (.writeMultipleCoils a cs)).length ≤ 253 := by
      rw [encodeRequestPdu_length]; exact hs
    have hpl := packCoils_length cs
    simp only [encodeRequestPdu, be16, List.cons_append, List.nil_append, List.append_assoc] at hlen ⊢
    simp only [decodeRequest, dispatch, requestArms, List.lookup]
    simp only [show ((15 : UInt8) == 1) = false by decide, show ((15 : UInt8) == 2) = false by decide,
      show ((15 : UInt8) == 5) = false by decide, show ((15 : UInt8) == 15) = true by decide]
    simp only [decWriteMultipleCoils, MAX_PDU_SIZE]
    have hnot : ¬ (List.length (15 :: UInt8.ofNat (a.toNat / 256) :: UInt8.ofNat (a.toNat % 256)
        :: UInt8.ofNat ((UInt16.ofNat cs.length).toNat / 256) :: UInt8.ofNat ((UInt16.ofNat cs.length).toNat % 256)
        :: UInt8.ofNat (packedCoilsSize cs.length) :: packCoils cs) > 253) := by omega
    have r1 := rd16_split cs.length (by omega)
    have ht : (packCoils cs).take (packedCoilsSize cs.length) = packCoils cs :=
      List.take_of_length_le (by rw [hpl]; exact Nat.le_refl _)
    have hd : (packCoils cs).drop (packedCoilsSize cs.length) = [] :=
      List.drop_eq_nil_of_le (by rw [hpl]; exact Nat.le_refl _)
    have hnot' : ¬ (253 < (packCoils cs).length + 1 + 1 + 1 + 1 + 1 + 1) := by omega
    have h1 : ¬ ((packCoils cs).length + 1 + 1 + 1 + 1 + 1 + 1 < 6 + packedCoilsSize cs.length) := by omega
    have h2 : ¬ (packedCoilsSize cs.length * 8 < cs.length) := by simp [packedCoilsSize]; omega
    simp [hnot', e1, e2, r1, h1, h2, ht, hd, unpackCoils_packCoils]

end Modbus

namespace Modbus

theorem dispatch_cases2 {α} (P : α → Prop) (fc : UInt8) (table : List (UInt8 × (Unit → α)))
    (dflt : Unit → α) (h1 : ∀ p ∈ table, p.1 = fc → P (p.2 ())) (h2 : table.lookup fc = none → P (dflt ())) :
    P (dispatch fc table dflt) := by
  unfold dispatch
  split
  · rename_i arm h
    exact h1 _ (lookup_mem fc table arm h) rfl
  · rename_i h; exact h2 h

theorem requestArms_lookup_isSome (fc : UInt8) (bytes rest : Bytes) (h : fc ∈ modelledCodes) :
    (requestArms bytes rest).lookup fc ≠ none := by
  simp only [modelledCodes, List.mem_cons, List.mem_nil_iff, or_false] at h
  rcases h with h | h | h | h | h | h | h | h | h | h | h <;> subst h <;> simp [requestArms, List.lookup]

theorem decWriteMultipleCoils_ok (bytes rest : Bytes) (r : Request)
    (h : decWriteMultipleCoils bytes rest = .ok r) : ∃ a cs, r = .writeMultipleCoils a cs := by
  unfold decWriteMultipleCoils at h
  split at h
  · simp at h
  · split at h
    · simp only at h
      split at h
      · simp at h
      · split at h
        · simp at h
        · split at h
          · simp at h
          · split at h
            · simp at h; exact ⟨_, _, h.symm⟩
            · simp at h
    · simp at h

theorem decWriteMultipleRegisters_ok (bytes rest : Bytes) (r : Request)
    (h : decWriteMultipleRegisters bytes rest = .ok r) : ∃ a ws, r = .writeMultipleRegisters a ws := by
  unfold decWriteMultipleRegisters at h
  split at h
  · simp at h
  · split at h
    · simp only at h
      split at h
      · simp at h
      · split at h
        · simp at h
        · split at h
          · simp at h; exact ⟨_, _, h.symm⟩
          · simp at h
    · simp at h

theorem decReadWriteMultipleRegisters_ok (bytes rest : Bytes) (r : Request)
    (h : decReadWriteMultipleRegisters bytes rest = .ok r) :
    ∃ a q w ws, r = .readWriteMultipleRegisters a q w ws := by
  unfold decReadWriteMultipleRegisters at h
  split at h
  · simp at h
  · split at h
    · simp only at h
      split at h
      · simp at h
      · split at h
        · simp at h
        · split at h
          · simp at h; exact ⟨_, _, _, _, h.symm⟩
          · simp at h
    · simp at h

/-- whatever the request decoder accepts is canonical: a typed request, or raw custom data
    under a function code below 0x80 that the decoder does not model -/
theorem decodeRequest_canonical (bs : Bytes) (r : Request) (h : decodeRequest bs = .ok r) : r.canonical := by
  unfold decodeRequest at h
  split at h
  · simp at h
  · rename_i fc rest
    revert h
    apply dispatch_cases2 (fun res => res = Res.ok r → r.canonical)
    · intro p hp _
      simp only [requestArms, List.mem_cons, List.mem_nil_iff, or_false] at hp
      rcases hp with h | h | h | h | h | h | h | h | h | h | h <;> subst h <;> simp only <;> intro hr
      · unfold dec2 at hr; split at hr <;> simp at hr; subst hr; trivial
      · unfold dec2 at hr; split at hr <;> simp at hr; subst hr; trivial
      · unfold decCoil at hr
        split at hr
        · split at hr
          · simp at hr
          · split at hr
            · simp at hr; subst hr; trivial
            · simp at hr
        · simp at hr
      · obtain ⟨_, _, h⟩ := decWriteMultipleCoils_ok _ _ _ hr; subst h; trivial
      · unfold dec2 at hr; split at hr <;> simp at hr; subst hr; trivial
      · unfold dec2 at hr; split at hr <;> simp at hr; subst hr; trivial
      · unfold dec2 at hr; split at hr <;> simp at hr; subst hr; trivial
      · obtain ⟨_, _, h⟩ := decWriteMultipleRegisters_ok _ _ _ hr; subst h; trivial
      · split at hr <;> simp at hr; subst hr; trivial
      · unfold dec3 at hr; split at hr <;> simp at hr; subst hr; trivial
      · obtain ⟨_, _, _, _, h⟩ := decReadWriteMultipleRegisters_ok _ _ _ hr; subst h; trivial
    · intro hnone hr
      split at hr
      · rename_i hlt
        simp at hr; subst hr
        refine ⟨hlt, ?_⟩
        intro hmem
        exact requestArms_lookup_isSome fc _ _ hmem hnone
      · simp at hr

end Modbus
