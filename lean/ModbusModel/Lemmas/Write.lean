import ModbusModel.Lemmas.Effects
/-
  The write side conserves bytes: what the transport accepted plus what is still
  buffered is exactly what was buffered before, in order.
-/
namespace Modbus

theorem writtenBytes_append (a b : List Effect) : writtenBytes (a ++ b) = writtenBytes a ++ writtenBytes b := by
  simp [writtenBytes]

theorem pollFlushFuel_conserves (n : Nat) (w : Bytes) (t : Transport) :
    writtenBytes (pollFlushFuel n w t).2.2.2 ++ (pollFlushFuel n w t).2.1 = w := by
  induction n generalizing w t with
  | zero => simp [pollFlushFuel, writtenBytes]
  | succ n ih =>
    unfold pollFlushFuel
    split
    · rename_i hw; subst hw
      split <;> simp [writtenBytes]
    · split
      · have := ih [] t
        simp only [writtenBytes, List.flatMap_cons, List.append_assoc]
        simp only [writtenBytes] at this
        rw [this]; simp
      · split
        · simp [writtenBytes]
        · rename_i k ws _ _
          have := ih (w.drop (min k w.length)) { t with writes := ws }
          simp only [writtenBytes, List.flatMap_cons, List.append_assoc]
          simp only [writtenBytes] at this
          rw [this]; simp [List.take_append_drop]
      all_goals simp [writtenBytes]

theorem pollFlush_conserves (w : Bytes) (t : Transport) :
    writtenBytes (pollFlush w t).2.2.2 ++ (pollFlush w t).2.1 = w :=
  pollFlushFuel_conserves _ w t

/-- a flush that completed without error left nothing in the buffer -/
theorem pollFlushFuel_ready_empty (n : Nat) (w : Bytes) (t : Transport)
    (h : (pollFlushFuel n w t).1 = .ready) : (pollFlushFuel n w t).2.1 = [] := by
  induction n generalizing w t with
  | zero => simp [pollFlushFuel] at h
  | succ n ih =>
    unfold pollFlushFuel at h ⊢
    split
    · split <;> simp_all
    · rename_i hw
      simp only [hw, if_false] at h
      split
      · rename_i hws
        simp only [hws] at h
        exact ih [] t h
      · rename_i k ws hws
        simp only [hws] at h
        split
        · rename_i hk; simp [hk] at h
        · rename_i hk
          simp only [hk, if_false] at h
          exact ih _ _ h
      all_goals (rename_i hws; simp [hws] at h)

theorem pollFlush_ready_empty (w : Bytes) (t : Transport) (h : (pollFlush w t).1 = .ready) :
    (pollFlush w t).2.1 = [] :=
  pollFlushFuel_ready_empty _ w t h

theorem awaitFlush_conserves (fuel : Nat) (w : Bytes) (t : Transport) (b : Budget) (effs : List Effect) :
    writtenBytes (awaitFlush fuel w t b effs).2.2.2.2 ++ (awaitFlush fuel w t b effs).2.1
      = writtenBytes effs ++ w := by
  induction fuel generalizing w t b effs with
  | zero => simp [awaitFlush]
  | succ n ih =>
    unfold awaitFlush
    have hp := pollFlush_conserves w t
    split
    · rename_i w' t' e heq
      rw [heq] at hp; simp only at hp
      simp only [writtenBytes_append, List.append_assoc, hp]
    · rename_i k w' t' e heq
      rw [heq] at hp; simp only at hp
      simp only [writtenBytes_append, List.append_assoc, hp]
    · rename_i w' t' e heq
      rw [heq] at hp; simp only at hp
      split
      · simp only [writtenBytes_append, List.append_assoc, hp]
      · rw [ih]; simp only [writtenBytes_append, List.append_assoc, hp]

/-- a send phase that ended successfully has flushed everything -/
theorem awaitFlush_done_empty (fuel : Nat) (w : Bytes) (t : Transport) (b : Budget) (effs : List Effect)
    (h : (awaitFlush fuel w t b effs).1 = .done none) : (awaitFlush fuel w t b effs).2.1 = [] := by
  induction fuel generalizing w t b effs with
  | zero => simp [awaitFlush] at h
  | succ n ih =>
    have hp := pollFlush_ready_empty w t
    rcases hq : pollFlush w t with ⟨p, w', t', e⟩
    rw [hq] at hp
    simp only [awaitFlush, hq] at h ⊢
    cases p with
    | ready => simp only at h ⊢; exact hp rfl
    | error k => simp at h
    | pending =>
      simp only at h ⊢
      cases hb : b.tick with
      | none => simp [hb] at h
      | some b' =>
        simp only [hb] at h ⊢
        exact ih _ _ _ _ h

end Modbus

namespace Modbus

theorem awaitReady_conserves (w : Bytes) (t : Transport) (b : Budget) :
    writtenBytes (awaitReady w t b).2.2.2.2 ++ (awaitReady w t b).2.1 = w := by
  unfold awaitReady
  split
  · have := awaitFlush_conserves (t.writes.length + t.flushes.length + 1) w t b []
    simpa [writtenBytes] using this
  · simp [writtenBytes]

/-- **write invariant of a call**: whatever the transport does and wherever the call is
    abandoned, the bytes it handed to the transport followed by what is still in the write
    buffer are the old buffer followed by either nothing or the one whole frame of this call
    (stamped with the current transaction id and the selected slave). -/
theorem call_write_invariant (c : Client) (req : Request) (t : Transport) (b : Budget) :
    ∃ x, (x = [] ∨ clientEncode c.kind (stampedHdr c) req = .ok x)
      ∧ writtenBytes (c.call req t b).2.2.2 ++ (c.call req t b).2.1.wbuf = c.wbuf ++ x := by
  unfold Client.call
  split
  · exact ⟨[], Or.inl rfl, by simp [writtenBytes]⟩
  · cases hf : c.framed with
    | none =>
      refine ⟨[], Or.inl rfl, ?_⟩
      cases hk : c.kind <;> simp [hf, Client.wbuf, writtenBytes]
    | some f =>
      cases hk : c.kind
      · simp only [hf, hk, stampedHdr, Client.wbuf]
        have h1 := awaitReady_conserves f.wbuf t b
        generalize awaitReady f.wbuf t b = r1 at h1
        rcases r1 with ⟨o, w, t1, b1, e1⟩
        simp only at h1
        cases o with
        | abandoned => exact ⟨[], Or.inl rfl, by simpa using h1⟩
        | blocked => exact ⟨[], Or.inl rfl, by simpa using h1⟩
        | done x =>
          cases x with
          | some k => exact ⟨[], Or.inl rfl, by simpa using h1⟩
          | none =>
            simp only
            cases he : clientEncode .tcp { tid := c.nextTid, unit := c.unit } req with
            | err k => exact ⟨[], Or.inl rfl, by simpa using h1⟩
            | panic => exact ⟨[], Or.inl rfl, by simpa using h1⟩
            | ok frame =>
              simp only
              have h2 := awaitFlush_conserves (t1.writes.length + t1.flushes.length + 1) (w ++ frame) t1 b1 e1
              generalize awaitFlush (t1.writes.length + t1.flushes.length + 1) (w ++ frame) t1 b1 e1 = r2 at h2
              rcases r2 with ⟨o2, w2, t2, b2, e2⟩
              simp only at h2
              have fin : writtenBytes e2 ++ w2 = f.wbuf ++ frame := by
                rw [h2, ← List.append_assoc, h1]
              cases o2 with
              | abandoned => exact ⟨frame, Or.inr rfl, by simpa using fin⟩
              | blocked => exact ⟨frame, Or.inr rfl, by simpa using fin⟩
              | done y =>
                cases y with
                | some k => exact ⟨frame, Or.inr rfl, by simpa using fin⟩
                | none =>
                  simp only
                  refine ⟨frame, Or.inr rfl, ?_⟩
                  generalize awaitNextB (clientDecoder .tcp) (t2.reads.length + 1) f.fd
                    { f.read with buffer := [] } t2.reads b2 = r3
                  rcases r3 with ⟨o3, fd3, rd3, evs3, b3⟩
                  cases o3 with
                  | abandoned => simpa using fin
                  | blocked => simpa using fin
                  | done p =>
                    cases p with
                    | item i => obtain ⟨rh, res⟩ := i; simpa using fin
                    | error k => simpa using fin
                    | done => simpa using fin
                    | pending => simpa using fin
                    | blocked => simpa using fin
                    | panic => simpa using fin
      · simp only [hf, hk, stampedHdr, Client.wbuf]
        have h1 := awaitReady_conserves f.wbuf t b
        generalize awaitReady f.wbuf t b = r1 at h1
        rcases r1 with ⟨o, w, t1, b1, e1⟩
        simp only at h1
        cases o with
        | abandoned => exact ⟨[], Or.inl rfl, by simpa using h1⟩
        | blocked => exact ⟨[], Or.inl rfl, by simpa using h1⟩
        | done x =>
          cases x with
          | some k => exact ⟨[], Or.inl rfl, by simpa using h1⟩
          | none =>
            simp only
            cases he : clientEncode .rtu { tid := 0, unit := c.unit } req with
            | err k => exact ⟨[], Or.inl rfl, by simpa using h1⟩
            | panic => exact ⟨[], Or.inl rfl, by simpa using h1⟩
            | ok frame =>
              simp only
              have h2 := awaitFlush_conserves (t1.writes.length + t1.flushes.length + 1) (w ++ frame) t1 b1 e1
              generalize awaitFlush (t1.writes.length + t1.flushes.length + 1) (w ++ frame) t1 b1 e1 = r2 at h2
              rcases r2 with ⟨o2, w2, t2, b2, e2⟩
              simp only at h2
              have fin : writtenBytes e2 ++ w2 = f.wbuf ++ frame := by
                rw [h2, ← List.append_assoc, h1]
              cases o2 with
              | abandoned => exact ⟨frame, Or.inr rfl, by simpa using fin⟩
              | blocked => exact ⟨frame, Or.inr rfl, by simpa using fin⟩
              | done y =>
                cases y with
                | some k => exact ⟨frame, Or.inr rfl, by simpa using fin⟩
                | none =>
                  simp only
                  refine ⟨frame, Or.inr rfl, ?_⟩
                  generalize awaitNextB (clientDecoder .rtu) (t2.reads.length + 1) f.fd
                    { f.read with buffer := [] } t2.reads b2 = r3
                  rcases r3 with ⟨o3, fd3, rd3, evs3, b3⟩
                  cases o3 with
                  | abandoned => simpa using fin
                  | blocked => simpa using fin
                  | done p =>
                    cases p with
                    | item i => obtain ⟨rh, res⟩ := i; simpa using fin
                    | error k => simpa using fin
                    | done => simpa using fin
                    | pending => simpa using fin
                    | blocked => simpa using fin
                    | panic => simpa using fin

end Modbus
