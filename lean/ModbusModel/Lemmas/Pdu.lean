import ModbusModel.Model.Pdu
import ModbusModel.Lemmas.Bytes
/-
  Lemmas about the PDU decoders: the dispatch table, absence of panics.
-/
namespace Modbus

/-- whatever holds of every arm and of the default holds of the dispatch -/
theorem lookup_mem {α} (fc : UInt8) (table : List (UInt8 × α)) (arm : α)
    (h : table.lookup fc = some arm) : (fc, arm) ∈ table := by
  induction table with
  | nil => simp [List.lookup] at h
  | cons p ps ih =>
    simp only [List.lookup] at h
    split at h
    · rename_i heq
      simp only [beq_iff_eq] at heq
      cases h; subst heq
      simp
    · simp [ih h]

theorem dispatch_cases {α} (P : α → Prop) (fc : UInt8) (table : List (UInt8 × (Unit → α)))
    (dflt : Unit → α) (h1 : ∀ p ∈ table, P (p.2 ())) (h2 : P (dflt ())) :
    P (dispatch fc table dflt) := by
  unfold dispatch
  split
  · rename_i arm h
    exact h1 _ (lookup_mem fc table arm h)
  · exact h2

theorem unpackCoils_isSome (bytes : Bytes) (n : Nat) (h : n ≤ 8 * bytes.length) :
    unpackCoils bytes n = some ((bytes.flatMap byteBits).take n) := by
  simp [unpackCoils, h]

theorem dec2_ne_panic {α} (f : UInt16 → UInt16 → α) (bs : Bytes) : dec2 f bs ≠ .panic := by
  unfold dec2; split <;> simp

theorem dec3_ne_panic {α} (f : UInt16 → UInt16 → UInt16 → α) (bs : Bytes) : dec3 f bs ≠ .panic := by
  unfold dec3; split <;> simp

theorem decCoil_ne_panic {α} (f : UInt16 → Bool → α) (bs : Bytes) : decCoil f bs ≠ .panic := by
  unfold decCoil; split
  · split
    · simp
    · split <;> simp
  · simp

theorem decRegs_ne_panic {α} (f : List UInt16 → α) (bs : Bytes) : decRegs f bs ≠ .panic := by
  unfold decRegs; split
  · simp
  · split
    · simp
    · split
      · simp
      · split <;> simp

theorem decBits_ne_panic {α} (f : List Bool → α) (total : Nat) (bs : Bytes) (h : total = 1 + bs.length) :
    decBits f total bs ≠ .panic := by
  unfold decBits; split
  · simp
  · rename_i bc tail
    split
    · simp
    · rename_i hlt
      have : bc.toNat * 8 ≤ 8 * (tail.take bc.toNat).length := by
        simp [List.length_take] at *
        omega
      rw [unpackCoils_isSome _ _ this]
      simp only
      split <;> simp

theorem decWriteMultipleCoils_ne_panic (bytes rest : Bytes) (h : bytes.length = 1 + rest.length) :
    decWriteMultipleCoils bytes rest ≠ .panic := by
  unfold decWriteMultipleCoils
  split
  · simp
  · split
    · rename_i a b c d bc tail
      simp only
      split
      · simp
      · split
        · simp
        · have : (rd16 c d).toNat ≤ 8 * (tail.take bc.toNat).length := by
            simp [List.length_take] at *
            omega
          rw [unpackCoils_isSome _ _ this]
          simp only
          split <;> simp
    · simp

theorem decWriteMultipleRegisters_ne_panic (bytes rest : Bytes) :
    decWriteMultipleRegisters bytes rest ≠ .panic := by
  unfold decWriteMultipleRegisters
  (repeat' split) <;> simp <;> (repeat' split) <;> simp

theorem decReadWriteMultipleRegisters_ne_panic (bytes rest : Bytes) :
    decReadWriteMultipleRegisters bytes rest ≠ .panic := by
  unfold decReadWriteMultipleRegisters
  (repeat' split) <;> simp <;> (repeat' split) <;> simp

theorem decReportServerId_ne_panic (rest : Bytes) : decReportServerId rest ≠ .panic := by
  unfold decReportServerId
  (repeat' split) <;> simp

theorem sized_ne_panic (bytes : Bytes) (arm : Res Response) (h : arm ≠ .panic) :
    sized bytes arm ≠ .panic := by
  unfold sized; split <;> simp [h]

/-- `Request::try_from` never panics -/
theorem decodeRequest_ne_panic (bs : Bytes) : decodeRequest bs ≠ .panic := by
  unfold decodeRequest
  split
  · simp
  · rename_i fc rest
    apply dispatch_cases (fun r => r ≠ Res.panic)
    · intro p hp
      simp only [requestArms, List.mem_cons, List.mem_nil_iff, or_false] at hp
      rcases hp with h | h | h | h | h | h | h | h | h | h | h <;> subst h <;> simp only
      · exact dec2_ne_panic _ _
      · exact dec2_ne_panic _ _
      · exact decCoil_ne_panic _ _
      · exact decWriteMultipleCoils_ne_panic _ _ (by simp; omega)
      · exact dec2_ne_panic _ _
      · exact dec2_ne_panic _ _
      · exact dec2_ne_panic _ _
      · exact decWriteMultipleRegisters_ne_panic _ _
      · split <;> simp
      · exact dec3_ne_panic _ _
      · exact decReadWriteMultipleRegisters_ne_panic _ _
    · split <;> simp

/-- `Response::try_from` never panics -/
theorem decodeResponse_ne_panic (bs : Bytes) : decodeResponse bs ≠ .panic := by
  unfold decodeResponse
  split
  · simp
  · rename_i fc rest
    apply dispatch_cases (fun r => r ≠ Res.panic)
    · intro p hp
      simp only [responseArms, List.mem_cons, List.mem_nil_iff, or_false] at hp
      rcases hp with h | h | h | h | h | h | h | h | h | h | h <;> subst h <;> simp only
      · exact sized_ne_panic _ _ (decBits_ne_panic _ _ _ (by simp; omega))
      · exact sized_ne_panic _ _ (decBits_ne_panic _ _ _ (by simp; omega))
      · exact decCoil_ne_panic _ _
      · exact dec2_ne_panic _ _
      · exact sized_ne_panic _ _ (decRegs_ne_panic _ _)
      · exact sized_ne_panic _ _ (decRegs_ne_panic _ _)
      · exact dec2_ne_panic _ _
      · exact dec2_ne_panic _ _
      · exact sized_ne_panic _ _ (decReportServerId_ne_panic _)
      · exact dec3_ne_panic _ _
      · exact sized_ne_panic _ _ (decRegs_ne_panic _ _)
    · simp

/-- `ExceptionResponse::try_from` never panics -/
theorem decodeException_ne_panic (bs : Bytes) : decodeException bs ≠ .panic := by
  unfold decodeException
  (repeat' split) <;> simp

/-- `ResponsePdu::try_from` never panics -/
theorem decodeResponsePdu_ne_panic (bs : Bytes) : decodeResponsePdu bs ≠ .panic := by
  unfold decodeResponsePdu
  split
  · simp
  · rename_i fc rest
    split
    · have := decodeResponse_ne_panic (fc :: rest)
      cases h : decodeResponse (fc :: rest) <;> simp_all [Res.map]
    · have := decodeException_ne_panic (fc :: rest)
      cases h : decodeException (fc :: rest) <;> simp_all [Res.map]

end Modbus
