import ModbusModel.Lemmas.Crc
/-
  An independent specification of CRC-16/MODBUS and the proof that `calc_crc` meets it.

  The specification is the textbook one: write the message as a polynomial over GF(2) – bits in
  the order they go over the line (each byte least significant bit first), the first bit the
  coefficient of the highest power –, append sixteen zero coefficients, complement the first
  sixteen coefficients (the register preset 0xFFFF), and divide by x^16 + x^15 + x^2 + 1.  The
  sixteen coefficients of the remainder, highest power first, are the sixteen CRC bits in the
  order they follow the message on the line.  `pmod` is schoolbook long division on coefficient
  lists; nothing in it mentions shifts to the right, the constant 0xA001, bytes or a register.
-/
namespace Modbus
namespace CrcSpec

/-! ### The specification -/

/-- sum of two polynomials over GF(2) given by coefficient lists of the same length -/
def padd (a b : List Bool) : List Bool := List.zipWith Bool.xor a b

/-- the divisor x^16 + x^15 + x^2 + 1 without its leading coefficient: x^15 … x^0 -/
def gTail : List Bool :=
  [true, false, false, false, false, false, false, false, false, false, false, false, false, true, false, true]

/-- `n` steps of long division: if the leading coefficient is 1, subtract the divisor aligned
    with it; then drop the leading coefficient -/
def pmod : Nat → List Bool → List Bool
  | 0, l => l
  | _, [] => []
  | n + 1, b :: rest => pmod n (if b then padd rest (gTail ++ List.replicate (rest.length - 16) false) else rest)

/-- the bits of a byte in transmission order: least significant first -/
def byteBits (x : UInt8) : List Bool := (List.range 8).map fun i => x.toNat.testBit i
def bitsOf (data : Bytes) : List Bool := data.flatMap byteBits

def zeros (n : Nat) : List Bool := List.replicate n false
def ones (n : Nat) : List Bool := List.replicate n true

/-- the dividend: the message bits, sixteen zeros appended, the first sixteen complemented -/
def dividend (data : Bytes) : List Bool :=
  padd (bitsOf data ++ zeros 16) (ones 16 ++ zeros (8 * data.length))

/-- CRC-16/MODBUS: the remainder, one division step per message bit -/
def crcSpec (data : Bytes) : List Bool := pmod (8 * data.length) (dividend data)

/-! ### list-level shift register -/

def stepL (s : List Bool) (b : Bool) : List Bool :=
  if Bool.xor (s.headD false) b then padd (s.tail ++ [false]) gTail else s.tail ++ [false]

theorem padd_length (a b : List Bool) : (padd a b).length = min a.length b.length := by
  simp [padd]

theorem padd_comm (a b : List Bool) : padd a b = padd b a := by
  unfold padd
  exact List.zipWith_comm_of_comm (by intro x y; cases x <;> cases y <;> rfl)

theorem padd_assoc (a b c : List Bool) : padd (padd a b) c = padd a (padd b c) := by
  unfold padd
  induction a generalizing b c with
  | nil => simp
  | cons x xs ih =>
    cases b with
    | nil => simp
    | cons y ys =>
      cases c with
      | nil => simp
      | cons z zs => simp [ih]

theorem padd_zeros (a : List Bool) (n : Nat) (h : a.length ≤ n) : padd a (zeros n) = a := by
  unfold padd zeros
  induction a generalizing n with
  | nil => simp
  | cons x xs ih =>
    cases n with
    | zero => simp at h
    | succ m =>
      simp [List.replicate_succ]
      exact ih m (by simpa using h)

theorem padd_append (a1 a2 b1 b2 : List Bool) (h : a1.length = b1.length) :
    padd (a1 ++ a2) (b1 ++ b2) = padd a1 b1 ++ padd a2 b2 := by
  unfold padd
  exact List.zipWith_append h

theorem stepL_length (s : List Bool) (b : Bool) (h : s.length = 16) : (stepL s b).length = 16 := by
  unfold stepL
  split <;> simp [padd_length, gTail, h]

theorem stepL_cons_true (s0 b : Bool) (st : List Bool) (h : (s0 ^^ b) = true) :
    stepL (s0 :: st) b = padd (st ++ [false]) gTail := by
  simp [stepL, h]

theorem stepL_cons_false (s0 b : Bool) (st : List Bool) (h : (s0 ^^ b) = false) :
    stepL (s0 :: st) b = st ++ [false] := by
  simp [stepL, h]

/-- long division of `s·x^n + bits·x^16` is the shift register started at `s` and fed `bits` -/
theorem pmod_eq_fold : ∀ (bits s : List Bool), s.length = 16 →
    pmod bits.length (padd (s ++ zeros bits.length) (bits ++ zeros 16)) = bits.foldl stepL s := by
  intro bits
  induction bits with
  | nil =>
    intro s hs
    simp [pmod, zeros]
    exact padd_zeros s 16 (by omega)
  | cons b bs ih =>
    intro s hs
    match s, hs with
    | s0 :: st, hs =>
      have hst : st.length = 15 := by simpa using hs
      simp only [List.length_cons, List.foldl_cons]
      rw [← ih (stepL (s0 :: st) b) (stepL_length _ _ hs)]
      have e1 : padd (s0 :: st ++ zeros (bs.length + 1)) (b :: bs ++ zeros 16)
          = Bool.xor s0 b :: padd (st ++ zeros (bs.length + 1)) (bs ++ zeros 16) := by
        simp [padd]
      rw [e1, pmod]
      have hz : zeros (bs.length + 1) = [false] ++ zeros bs.length := by
        simp [zeros, List.replicate_succ]
      have hlen : (padd (st ++ zeros (bs.length + 1)) (bs ++ zeros 16)).length - 16 = bs.length := by
        simp [padd_length, zeros, hst]; omega
      congr 1
      by_cases ht : (s0 ^^ b) = true
      · rw [stepL_cons_true _ _ _ ht, if_pos ht]
        rw [hlen, hz, ← List.append_assoc]
        rw [padd_assoc, padd_comm (bs ++ zeros 16), ← padd_assoc]
        congr 1
        have : gTail ++ List.replicate bs.length false = gTail ++ zeros bs.length := rfl
        rw [this, padd_append _ _ _ _ (by simp [gTail, hst])]
        congr 1
        exact padd_zeros _ _ (by simp [zeros])
      · have ht' : (s0 ^^ b) = false := by simpa using ht
        rw [stepL_cons_false _ _ _ ht', if_neg ht, hz, ← List.append_assoc]


/-! ### the register of `calc_crc` as such a list -/

def toL (v : BitVec 16) : List Bool :=
  [v.getLsbD 0, v.getLsbD 1, v.getLsbD 2, v.getLsbD 3, v.getLsbD 4, v.getLsbD 5, v.getLsbD 6, v.getLsbD 7,
   v.getLsbD 8, v.getLsbD 9, v.getLsbD 10, v.getLsbD 11, v.getLsbD 12, v.getLsbD 13, v.getLsbD 14, v.getLsbD 15]

def bitv (b : Bool) : BitVec 16 := if b then 1#16 else 0#16

theorem toL_sh (v : BitVec 16) (b : Bool) : toL (sh (v ^^^ bitv b)) = stepL (toL v) b := by
  have h0 : (v ^^^ bitv b)[0] = (v[0] ^^ b) := by
    cases b <;> simp [bitv]
  unfold sh
  rw [h0]
  cases hv : v[0] <;> cases b <;>
    simp [toL, stepL, padd, gTail, bitv, hv]


/-- the register fed bit by bit -/
def ser (s : BitVec 16) (bits : List Bool) : BitVec 16 := bits.foldl (fun s b => sh (s ^^^ bitv b)) s

theorem toL_ser (bits : List Bool) : ∀ s, toL (ser s bits) = bits.foldl stepL (toL s) := by
  induction bits with
  | nil => intro s; rfl
  | cons b bs ih =>
    intro s
    simp only [ser, List.foldl_cons] at *
    rw [ih, toL_sh]

theorem ser_append (s : BitVec 16) (a b : List Bool) : ser s (a ++ b) = ser (ser s a) b := by
  simp [ser]

theorem xor_swap_mid (s t p : BitVec 16) : s ^^^ t ^^^ p = s ^^^ p ^^^ t := by
  ext i hi
  simp
  cases s[i] <;> cases t[i] <;> cases p[i] <;> rfl

theorem ser_xor (bits : List Bool) : ∀ s t, ser (s ^^^ t) bits = ser s bits ^^^ ser t (zeros bits.length) := by
  induction bits with
  | nil => intro s t; rfl
  | cons b bs ih =>
    intro s t
    simp only [ser, List.foldl_cons, zeros, List.length_cons, List.replicate_succ] at *
    rw [xor_swap_mid, sh_xor, ih]
    simp [bitv]

theorem sh8_toBitVec (c : UInt16) : (sh8 c).toBitVec = ser c.toBitVec (zeros 8) := by
  simp [sh8, crcShift_toBitVec, ser, zeros, bitv]

theorem sh8_byte : ∀ x : UInt8, (sh8 x.toUInt16).toBitVec = ser 0 (byteBits x) := by
  apply forall_u8
  decide +kernel

theorem crcByte_toBitVec (c : UInt16) (x : UInt8) : (crcByte c x).toBitVec = ser c.toBitVec (byteBits x) := by
  rw [crcByte_eq, sh8_xor, UInt16.toBitVec_xor, sh8_byte, sh8_toBitVec]
  have h := ser_xor (byteBits x) 0 c.toBitVec
  have hl : (byteBits x).length = 8 := by simp [byteBits]
  rw [hl] at h
  rw [BitVec.xor_comm, ← h]
  simp

theorem reg_toBitVec (data : Bytes) : ∀ c : UInt16, (reg c data).toBitVec = ser c.toBitVec (bitsOf data) := by
  induction data with
  | nil => intro c; rfl
  | cons x xs ih =>
    intro c
    have : bitsOf (x :: xs) = byteBits x ++ bitsOf xs := by simp [bitsOf]
    rw [this, ser_append, ← crcByte_toBitVec, ← ih]
    rfl


theorem bitsOf_length (data : Bytes) : (bitsOf data).length = 8 * data.length := by
  induction data with
  | nil => rfl
  | cons x xs ih =>
    have : bitsOf (x :: xs) = byteBits x ++ bitsOf xs := by simp [bitsOf]
    rw [this, List.length_append, ih]
    simp [byteBits]; omega

/-- the register after all bytes holds the remainder, coefficient of x^15 in bit 0 -/
theorem reg_is_remainder (data : Bytes) : toL (reg 0xFFFF data).toBitVec = crcSpec data := by
  rw [reg_toBitVec, toL_ser]
  have h := pmod_eq_fold (bitsOf data) (ones 16) (by simp [ones])
  rw [bitsOf_length] at h
  unfold crcSpec dividend
  rw [padd_comm, h]
  rfl

theorem testBit_lo (h l : UInt8) (i : Nat) (hi : i < 8) :
    (h.toNat * 256 + l.toNat).testBit i = l.toNat.testBit i := by
  have := Nat.testBit_two_pow_mul_add (i := 8) h.toNat (b := l.toNat) l.toNat_lt i
  rw [Nat.mul_comm] at this
  simpa [hi] using this

theorem testBit_hi (h l : UInt8) (i : Nat) :
    (h.toNat * 256 + l.toNat).testBit (8 + i) = h.toNat.testBit i := by
  have := Nat.testBit_two_pow_mul_add (i := 8) h.toNat (b := l.toNat) l.toNat_lt (8 + i)
  rw [Nat.mul_comm] at this
  have h8 : ¬ (8 + i < 8) := by omega
  simpa [h8] using this

theorem toL_rd16 (h l : UInt8) : toL (rd16 h l).toBitVec = byteBits l ++ byteBits h := by
  have hlt : h.toNat * 256 + l.toNat < 65536 := by
    have := h.toNat_lt; have := l.toNat_lt; omega
  have e : (UInt16.ofNat (h.toNat * 256 + l.toNat)).toBitVec.toNat = h.toNat * 256 + l.toNat := by
    rw [UInt16.toNat_toBitVec, UInt16.toNat_ofNat', Nat.mod_eq_of_lt hlt]
  simp only [toL, rd16, byteBits, BitVec.getLsbD, e]
  have r8 : List.range 8 = [0, 1, 2, 3, 4, 5, 6, 7] := by decide
  rw [r8]
  simp only [List.map_cons, List.map_nil, List.cons_append, List.nil_append]
  have t0 := testBit_hi h l 0; have t1 := testBit_hi h l 1; have t2 := testBit_hi h l 2
  have t3 := testBit_hi h l 3; have t4 := testBit_hi h l 4; have t5 := testBit_hi h l 5
  have t6 := testBit_hi h l 6; have t7 := testBit_hi h l 7
  simp only [Nat.reduceAdd] at t0 t1 t2 t3 t4 t5 t6 t7
  rw [testBit_lo h l 0 (by omega), testBit_lo h l 1 (by omega), testBit_lo h l 2 (by omega),
    testBit_lo h l 3 (by omega), testBit_lo h l 4 (by omega), testBit_lo h l 5 (by omega),
    testBit_lo h l 6 (by omega), testBit_lo h l 7 (by omega), t0, t1, t2, t3, t4, t5, t6, t7]

/-- on the wire (low byte first, least significant bit first) the two CRC bytes are the
    coefficients of the remainder, highest degree first -/
theorem crcBytes_is_remainder (data : Bytes) : bitsOf (crcBytes data) = crcSpec data := by
  rw [← reg_is_remainder]
  generalize hr : reg 0xFFFF data = r
  have hc : calcCrc data = (r >>> 8) ||| (r <<< 8) := by rw [← hr]; rfl
  unfold crcBytes
  rw [hc]
  have hb := rd16_be16 r
  generalize UInt8.ofNat (r.toNat / 256) = h at hb
  generalize UInt8.ofNat (r.toNat % 256) = l at hb
  rw [← hb, swap_bytes, be16_rd16, toL_rd16]
  simp [bitsOf]

end CrcSpec
end Modbus
