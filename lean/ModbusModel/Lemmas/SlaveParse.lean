import ModbusModel.Model.Frame
/-
  `Slave::from_str` on every digit string (any length, leading zeros included).
-/
namespace Modbus

/-- value of a digit list, most significant digit first -/
def valOf (r : Nat) (ds : List Nat) (acc : Nat := 0) : Nat := ds.foldl (fun a d => a * r + d) acc

theorem valOf_ge (r : Nat) (hr : 1 ≤ r) : ∀ (ds : List Nat) (acc : Nat), acc ≤ valOf r ds acc := by
  intro ds
  induction ds with
  | nil => intro acc; simp [valOf]
  | cons d ds ih =>
    intro acc
    have h := ih (acc * r + d)
    simp only [valOf, List.foldl_cons] at h ⊢
    have : acc ≤ acc * r := Nat.le_mul_of_pos_right acc hr
    omega

/-- the accumulation loop of `u8::from_str_radix` on a string of valid digits: the value if it
    fits a byte, an error (overflow) otherwise – at whichever digit the overflow shows -/
theorem go_digits (r : Nat) (hr : 1 ≤ r) (digit : Char → Option Nat) (ch : Nat → Char)
    (hd : ∀ d, d < r → digit (ch d) = some d) :
    ∀ (ds : List Nat) (acc : Nat), acc ≤ 255 → (∀ d ∈ ds, d < r) →
      parseU8Radix.go r digit acc (ds.map ch) = (if valOf r ds acc ≤ 255 then some (valOf r ds acc) else none) := by
  intro ds
  induction ds with
  | nil =>
    intro acc hacc _
    simp [parseU8Radix.go, valOf, hacc]
  | cons d ds ih =>
    intro acc hacc hds
    have hdr : d < r := hds d (by simp)
    simp only [List.map_cons, parseU8Radix.go, hd d hdr]
    by_cases hov : acc * r + d > 255
    · have := valOf_ge r hr ds (acc * r + d)
      have hnot : ¬ (valOf r (d :: ds) acc ≤ 255) := by
        simp only [valOf, List.foldl_cons] at this ⊢; omega
      simp [hov, hnot]
    · simp only [hov, if_false]
      rw [ih (acc * r + d) (by omega) (fun x hx => hds x (by simp [hx]))]
      rfl

def decChar (d : Nat) : Char := Char.ofNat (48 + d)

/-- a hexadecimal digit in either case -/
def hexChar (upper : Bool) (d : Nat) : Char :=
  if d < 10 then Char.ofNat (48 + d) else if upper then Char.ofNat (55 + d) else Char.ofNat (87 + d)

theorem decDigit_decChar : ∀ d, d < 10 → decDigit (decChar d) = some d ∧ decChar d ≠ '+' := by
  intro d hd
  have : d = 0 ∨ d = 1 ∨ d = 2 ∨ d = 3 ∨ d = 4 ∨ d = 5 ∨ d = 6 ∨ d = 7 ∨ d = 8 ∨ d = 9 := by omega
  rcases this with h | h | h | h | h | h | h | h | h | h <;> subst h <;> decide

theorem hexDigit_hexChar (u : Bool) : ∀ d, d < 16 → hexDigit (hexChar u d) = some d ∧ hexChar u d ≠ '+' := by
  intro d hd
  have : d = 0 ∨ d = 1 ∨ d = 2 ∨ d = 3 ∨ d = 4 ∨ d = 5 ∨ d = 6 ∨ d = 7 ∨ d = 8 ∨ d = 9
      ∨ d = 10 ∨ d = 11 ∨ d = 12 ∨ d = 13 ∨ d = 14 ∨ d = 15 := by omega
  rcases this with h | h | h | h | h | h | h | h | h | h | h | h | h | h | h | h <;> subst h <;> cases u <;> decide

theorem parseU8Radix_cons (r : Nat) (digit : Char → Option Nat) (c : Char) (tl : List Char) (hc : c ≠ '+') :
    parseU8Radix r digit (c :: tl)
      = (match parseU8Radix.go r digit 0 (c :: tl) with
        | some n => some (UInt8.ofNat n)
        | none => none) := by
  unfold parseU8Radix
  split
  · rename_i rest heq
    simp only [List.cons.injEq] at heq
    exact absurd heq.1 hc
  · simp only [List.isEmpty_cons]
    cases parseU8Radix.go r digit 0 (c :: tl) <;> rfl

/-- `str::parse::<u8>` / `u8::from_str_radix` on a non-empty string of valid digits -/
theorem parseU8Radix_digits (r : Nat) (hr : 1 ≤ r) (digit : Char → Option Nat) (ch : Nat → Char)
    (hd : ∀ d, d < r → digit (ch d) = some d ∧ ch d ≠ '+')
    (ds : List Nat) (hne : ds ≠ []) (hds : ∀ d ∈ ds, d < r) :
    parseU8Radix r digit (ds.map ch) = (if valOf r ds ≤ 255 then some (UInt8.ofNat (valOf r ds)) else none) := by
  obtain ⟨d, rest, rfl⟩ : ∃ d rest, ds = d :: rest := by
    cases ds with
    | nil => exact absurd rfl hne
    | cons d rest => exact ⟨d, rest, rfl⟩
  have hplus : ch d ≠ '+' := (hd d (hds d (by simp))).2
  have hgo := go_digits r hr digit ch (fun x hx => (hd x hx).1) (d :: rest) 0 (by omega) hds
  simp only [List.map_cons] at hgo ⊢
  rw [parseU8Radix_cons r digit (ch d) _ hplus, hgo]
  by_cases h : valOf r (d :: rest) ≤ 255 <;> simp [h]

end Modbus
