import ModbusModel.Model.Server
import ModbusModel.Lemmas.Chunking
/-
  The per-connection loop over a whole stream of requests: one induction over the request
  list, on top of the chunking theorem.
-/
namespace Modbus

/-- the reply (if any) the loop writes for one request -/
def replyEvents (k : Kind) (svc : Service) (idx : Nat) (h : Hdr) (q : Request) : List SrvEvent :=
  match responseFor q.functionCode (svc idx h.unit q) with
  | none => []
  | some rsp =>
    match serverEncode k h rsp with
    | .ok frame => [.write frame]
    | _ => []

/-- what a connection shows for a list of requests, the first of them being call number `idx`:
    for each request, in order, the call and then its reply (or nothing if the service declines) -/
def expectedTrace (k : Kind) (svc : Service) : Nat → List (Hdr × Request) → List SrvEvent
  | _, [] => []
  | idx, (h, q) :: rest => .call h.unit q :: replyEvents k svc idx h q ++ expectedTrace k svc (idx + 1) rest

/-- every reply the service gives to these requests can be encoded (fits the PDU limit …) -/
def Encodable (k : Kind) (svc : Service) : Nat → List (Hdr × Request) → Prop
  | _, [] => True
  | idx, (h, q) :: rest =>
    (∀ rsp, responseFor q.functionCode (svc idx h.unit q) = some rsp →
      ∃ frame, serverEncode k h rsp = .ok frame ∧ frame ≠ []) ∧ Encodable k svc (idx + 1) rest

theorem awaitFlushS_all (frame : Bytes) (hne : frame ≠ []) (n : Nat) (t' : Transport)
    (h1 : t'.writes = []) (h2 : t'.flushes = []) :
    processLoop.awaitFlushS (n + 1) frame t' = (none, [], t', [.write frame]) := by
  unfold processLoop.awaitFlushS pollFlush
  have hl : frame.length + 1 = (frame.length - 1 + 1) + 1 := by
    have : 0 < frame.length := List.length_pos_iff.mpr hne
    omega
  rw [hl]
  simp [pollFlushFuel, hne, h1, h2]

theorem loop_answered (k : Kind) (svc : Service) (fuel idx : Nat) (f : ServerFramed) (t : Transport)
    (tr : List SrvEvent) (hdr : Hdr) (req : Request) (fd : FrameDecoder) (r : ReadFrame) (evs : List ReadEv)
    (rsp : ResponseResult) (frame : Bytes)
    (h : awaitNext (serverDecoder k) f.fd f.read t.reads = (.item (hdr, req), fd, r, evs))
    (hs : responseFor req.functionCode (svc idx hdr.unit req) = some rsp)
    (he : serverEncode k hdr rsp = .ok frame)
    (hw : f.wbuf = []) (htw : t.writes = []) (htf : t.flushes = []) (hne : frame ≠ []) :
    processLoop k svc (fuel + 1) idx f t tr
      = processLoop k svc fuel (idx + 1) { f with read := r, fd := fd, wbuf := [] } { t with reads := evs }
          (tr ++ [.call hdr.unit req] ++ [.write frame]) := by
  simp only [processLoop, h, hs, hw, he]
  simp only [BACKPRESSURE_BOUNDARY, List.length_nil, htw, htf, Nat.zero_add, ge_iff_le,
    Nat.not_succ_le_zero, if_false, List.nil_append]
  have h8 : ¬ (8192 ≤ 0) := by omega
  simp only [h8, if_false, List.nil_append]
  rw [show (1 : Nat) = 0 + 1 from rfl, awaitFlushS_all frame hne 0 _ rfl rfl]
  simp [effectsToEvents]

theorem loop_declined (k : Kind) (svc : Service) (fuel idx : Nat) (f : ServerFramed) (t : Transport)
    (tr : List SrvEvent) (hdr : Hdr) (req : Request) (fd : FrameDecoder) (r : ReadFrame) (evs : List ReadEv)
    (h : awaitNext (serverDecoder k) f.fd f.read t.reads = (.item (hdr, req), fd, r, evs))
    (hd : responseFor req.functionCode (svc idx hdr.unit req) = none) :
    processLoop k svc (fuel + 1) idx f t tr
      = processLoop k svc fuel (idx + 1) { f with read := r, fd := fd } { t with reads := evs }
          (tr ++ [.call hdr.unit req]) := by
  simp [processLoop, h, hd]

/-- the state of a connection between two requests on a transport that takes every write -/
structure Between (f : ServerFramed) (t : Transport) (rest : Bytes) : Prop where
  noErr : f.read.hasErrored = false
  noEof : f.read.eof = false
  clean : f.read.isReadable = false → f.read.buffer = []
  wbuf : f.wbuf = []
  writes : t.writes = []
  flushes : t.flushes = []
  feeds : ∀ e ∈ t.reads, e.isFeed = true
  data : f.read.buffer ++ dataOf t.reads = rest

/-- **n requests**: the loop serves a stream of `n` valid request frames (cut into reads in any
    way) one after the other – call, then reply, then the next request – and arrives, `n`
    iterations later, between two requests again -/
theorem processLoop_serves (k : Kind) (F : Framing (serverDecoder k)) (svc : Service) :
    ∀ (frames : List Bytes) (fuel idx : Nat) (f : ServerFramed) (t : Transport) (tr : List SrvEvent) (tail : Bytes),
      (∀ x ∈ frames, F.Valid x) → (∀ x ∈ frames, x ≠ []) →
      Between f t (frames.flatten ++ tail) → Encodable k svc idx (frames.map F.item) →
      ∃ f' t', processLoop k svc (fuel + frames.length) idx f t tr
          = processLoop k svc fuel (idx + frames.length) f' t' (tr ++ expectedTrace k svc idx (frames.map F.item))
        ∧ Between f' t' tail := by
  intro frames
  induction frames with
  | nil =>
    intro fuel idx f t tr tail _ _ hb _
    exact ⟨f, t, by simp [expectedTrace], by simpa using hb⟩
  | cons x xs ih =>
    intro fuel idx f t tr tail hv hne hb henc
    have hxv : F.Valid x := hv x (by simp)
    have hxne : x ≠ [] := hne x (by simp)
    have inv : FrameInv f.read x := ⟨hb.noErr, hb.noEof, fun hr => by
      rw [hb.clean hr]; exact ⟨List.nil_prefix, fun e => hxne e.symm⟩⟩
    have hdata' : f.read.buffer ++ dataOf t.reads = x ++ (xs.flatten ++ tail) := by
      simpa [List.append_assoc] using hb.data
    obtain ⟨s', r', evs', g1, g2, g3, g4, g5, g6, _⟩ :=
      next_delivers F x (xs.flatten ++ tail) hxv t.reads f.fd f.read hb.feeds inv hdata'
    obtain ⟨h, q, hq⟩ : ∃ h q, F.item x = (h, q) := ⟨(F.item x).1, (F.item x).2, rfl⟩
    rw [hq] at g1
    simp only [List.map_cons, hq, Encodable] at henc
    obtain ⟨henc1, henc2⟩ := henc
    have e : fuel + (x :: xs).length = (fuel + xs.length) + 1 := by simp; omega
    have e2 : idx + (x :: xs).length = (idx + 1) + xs.length := by simp; omega
    cases hrf : responseFor q.functionCode (svc idx h.unit q) with
    | none =>
      have step := loop_declined k svc (fuel + xs.length) idx f t tr h q s' r' evs' g1 hrf
      have hb' : Between { f with read := r', fd := s' } { t with reads := evs' } (xs.flatten ++ tail) :=
        ⟨g4, g5, fun hr => by simp [g3] at hr, hb.wbuf, hb.writes, hb.flushes, g6, g2⟩
      obtain ⟨f', t', k1, k2⟩ := ih fuel (idx + 1) _ _ (tr ++ [.call h.unit q]) tail
        (fun y hy => hv y (by simp [hy])) (fun y hy => hne y (by simp [hy])) hb' henc2
      refine ⟨f', t', ?_, k2⟩
      rw [e, step, k1, e2]
      simp [expectedTrace, hq, replyEvents, hrf]
    | some rsp =>
      obtain ⟨frame, he, hfne⟩ := henc1 rsp hrf
      have step := loop_answered k svc (fuel + xs.length) idx f t tr h q s' r' evs' rsp frame g1 hrf he
        hb.wbuf hb.writes hb.flushes hfne
      have hb' : Between { f with read := r', fd := s', wbuf := [] } { t with reads := evs' } (xs.flatten ++ tail) :=
        ⟨g4, g5, fun hr => by simp [g3] at hr, rfl, hb.writes, hb.flushes, g6, g2⟩
      obtain ⟨f', t', k1, k2⟩ := ih fuel (idx + 1) _ _ (tr ++ [.call h.unit q] ++ [.write frame]) tail
        (fun y hy => hv y (by simp [hy])) (fun y hy => hne y (by simp [hy])) hb' henc2
      refine ⟨f', t', ?_, k2⟩
      rw [e, step, k1, e2]
      simp [expectedTrace, hq, replyEvents, hrf, he]

/-! ### when the input runs dry -/

variable {σ ι : Type} {D : Decoder σ ι}

/-- one poll on a healthy reader with nothing buffered and no bytes to come: `Pending`
    (consuming a `Pending` event) or the end of the script -/
theorem pollNext_starved (hD : ∀ s, ∃ s', D.decode s [] = (.ok none, s', []))
    (s : σ) (r : ReadFrame) (evs : List ReadEv)
    (he : r.hasErrored = false) (hq : r.eof = false) (hfeed : ∀ e ∈ evs, e.isFeed = true)
    (hdata : r.buffer ++ dataOf evs = []) :
    (∃ s' r', pollNext D s r evs = (.blocked, s', r', []))
    ∨ (∃ s' r' evs', pollNext D s r evs = (.pending, s', r', evs') ∧ r'.hasErrored = false ∧ r'.eof = false
        ∧ (∀ e ∈ evs', e.isFeed = true) ∧ r'.buffer ++ dataOf evs' = [] ∧ evs'.length < evs.length) := by
  have hbuf : r.buffer = [] := (List.append_eq_nil_iff.mp hdata).1
  have hd : dataOf evs = [] := (List.append_eq_nil_iff.mp hdata).2
  obtain ⟨s1, hs1⟩ := hD s
  -- the part before the read
  have hpre : ∃ s' r', ReadFrame.pre D s r = (none, s', r') ∧ r'.hasErrored = false ∧ r'.eof = false ∧ r'.buffer = [] := by
    by_cases hr : r.isReadable = true
    · refine ⟨s1, { r with buffer := [], isReadable := false }, ?_, he, hq, rfl⟩
      simp [ReadFrame.pre, he, hr, hq, hbuf, hs1]
    · exact ⟨s, r, by simp [ReadFrame.pre, he, hr], he, hq, hbuf⟩
  obtain ⟨s', r', hp, he', hq', hb'⟩ := hpre
  cases evs with
  | nil => exact Or.inl ⟨s', r', by rw [pollNext, hp]⟩
  | cons e evs' =>
    have hfe := hfeed e (by simp)
    cases e with
    | pending =>
      refine Or.inr ⟨s', r', evs', by rw [pollNext, hp], he', hq', fun x hx => hfeed x (by simp [hx]), ?_, by simp⟩
      rw [hb']; simpa [dataOf] using hd
    | data bs =>
      exfalso
      simp only [dataOf, List.append_eq_nil_iff] at hd
      simp [ReadEv.isFeed, hd.1] at hfe
    | err k => simp [ReadEv.isFeed] at hfe
    | eof => simp [ReadEv.isFeed] at hfe

theorem awaitNextFuel_starved (hD : ∀ s, ∃ s', D.decode s [] = (.ok none, s', [])) :
    ∀ (n : Nat) (s : σ) (r : ReadFrame) (evs : List ReadEv),
      r.hasErrored = false → r.eof = false → (∀ e ∈ evs, e.isFeed = true) → r.buffer ++ dataOf evs = [] →
      (awaitNextFuel D n s r evs).1 = .blocked := by
  intro n
  induction n with
  | zero => intro s r evs _ _ _ _; rfl
  | succ n ih =>
    intro s r evs he hq hfeed hdata
    rcases pollNext_starved hD s r evs he hq hfeed hdata with ⟨s', r', h⟩ | ⟨s', r', evs', h, he', hq', hf', hd', _⟩
    · rw [awaitNextFuel, h]
    · rw [awaitNextFuel, h]
      exact ih s' r' evs' he' hq' hf' hd'

theorem serverDecoder_empty (k : Kind) : ∀ s, ∃ s', (serverDecoder k).decode s [] = (.ok none, s', []) := by
  intro s
  cases k with
  | tcp => exact ⟨s, by simp [serverDecoder, tcpServerDecode, aduDecode, Res.map]⟩
  | rtu =>
    refine ⟨s, ?_⟩
    simp [serverDecoder, rtuServerDecode, rtuDecode, MAX_RETRIES, rtuDecodeLoop, requestPduLen, Res.map]

/-- with nothing more to read the loop just waits: no call, no write -/
theorem processLoop_starved (k : Kind) (svc : Service) (fuel idx : Nat) (f : ServerFramed) (t : Transport)
    (tr : List SrvEvent) (hb : Between f t []) :
    (processLoop k svc fuel idx f t tr).1 = .blocked ∧ (processLoop k svc fuel idx f t tr).2.1 = tr := by
  cases fuel with
  | zero => simp [processLoop]
  | succ fuel =>
    have h := awaitNextFuel_starved (serverDecoder_empty k) (t.reads.length + 1) f.fd f.read t.reads
      hb.noErr hb.noEof hb.feeds hb.data
    obtain ⟨p, fd, r, evs, hres⟩ : ∃ p fd r evs, awaitNext (serverDecoder k) f.fd f.read t.reads = (p, fd, r, evs) :=
      ⟨_, _, _, _, rfl⟩
    have hp : p = .blocked := by
      have : (awaitNext (serverDecoder k) f.fd f.read t.reads).1 = .blocked := h
      rw [hres] at this
      exact this
    subst hp
    simp [processLoop, hres]

theorem readBytesTotal_eq (evs : List ReadEv) : readBytesTotal evs = (dataOf evs).length := by
  induction evs with
  | nil => rfl
  | cons e evs ih => cases e <;> simp [readBytesTotal, dataOf, ih]

theorem flatten_length_ge (frames : List Bytes) (hne : ∀ x ∈ frames, x ≠ []) :
    frames.length ≤ frames.flatten.length := by
  induction frames with
  | nil => simp
  | cons x xs ih =>
    have : 0 < x.length := List.length_pos_iff.mpr (hne x (by simp))
    have := ih (fun y hy => hne y (by simp [hy]))
    rw [List.flatten_cons, List.length_append, List.length_cons]; omega

/-- **the whole connection**: on a transport that takes every write, a stream that consists of
    valid request frames – cut into reads in any way, with any `Pending`s – makes `process` show
    exactly: for each request, in arrival order, one call followed by its one reply (nothing if
    the service declines), and then wait for more -/
theorem process_serves (k : Kind) (F : Framing (serverDecoder k)) (svc : Service)
    (frames : List Bytes) (t : Transport)
    (hv : ∀ x ∈ frames, F.Valid x) (hne : ∀ x ∈ frames, x ≠ [])
    (hw : t.writes = []) (hf : t.flushes = []) (hfeed : ∀ e ∈ t.reads, e.isFeed = true)
    (hdata : dataOf t.reads = frames.flatten) (henc : Encodable k svc 0 (frames.map F.item)) :
    (process k svc t).1 = .blocked
    ∧ (process k svc t).2.1 = expectedTrace k svc 0 (frames.map F.item) := by
  have hlen : frames.length ≤ readBytesTotal t.reads := by
    rw [readBytesTotal_eq, hdata]; exact flatten_length_ge frames hne
  have hb : Between ({} : ServerFramed) t (frames.flatten ++ []) :=
    ⟨rfl, rfl, fun _ => rfl, rfl, hw, hf, hfeed, by simpa using hdata⟩
  obtain ⟨f', t', h1, h2⟩ := processLoop_serves k F svc frames
    (readBytesTotal t.reads + t.reads.length + 2 - frames.length) 0 {} t [] [] hv hne hb henc
  have e : readBytesTotal t.reads + t.reads.length + 2 - frames.length + frames.length
      = readBytesTotal t.reads + t.reads.length + 2 := by omega
  unfold process
  rw [e] at h1
  rw [h1]
  simpa using processLoop_starved k svc _ _ f' t' _ h2

end Modbus
