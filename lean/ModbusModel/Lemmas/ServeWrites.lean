import ModbusModel.Lemmas.ServeEnd
import ModbusModel.Lemmas.ServeFault
/-
  The n-request theorem on a transport with a write script: the transport takes the replies to
  the first n requests (each whole), and fails somewhere inside the reply to request n+1.
-/
namespace Modbus

/-- the write events of a transport that takes each reply of a trace whole, one write per reply -/
def acceptScript : List SrvEvent → List WriteEv
  | [] => []
  | .write f :: tr => .accept f.length :: acceptScript tr
  | .call _ _ :: tr => acceptScript tr

theorem acceptScript_append (a b : List SrvEvent) : acceptScript (a ++ b) = acceptScript a ++ acceptScript b := by
  induction a with
  | nil => rfl
  | cons e es ih => cases e <;> simp [acceptScript, ih]

theorem awaitFlushS_accept (frame : Bytes) (hne : frame ≠ []) (n : Nat) (t : Transport) (ws : List WriteEv)
    (h1 : t.writes = .accept frame.length :: ws) (h2 : t.flushes = []) :
    processLoop.awaitFlushS (n + 1) frame t = (none, [], { t with writes := ws }, [.write frame]) := by
  unfold processLoop.awaitFlushS pollFlush
  have hpos : 0 < frame.length := List.length_pos_iff.mpr hne
  have hl : frame.length + 1 = (frame.length - 1 + 1) + 1 := by omega
  have hz : frame.length ≠ 0 := by omega
  rw [hl]
  simp [pollFlushFuel, hne, h1, h2, hz]

/-- one iteration: the request is answered, the transport takes the reply with its next write -/
theorem loop_answered_w (k : Kind) (svc : Service) (fuel idx : Nat) (f : ServerFramed) (t : Transport)
    (tr : List SrvEvent) (hdr : Hdr) (req : Request) (fd : FrameDecoder) (r : ReadFrame) (evs : List ReadEv)
    (rsp : ResponseResult) (frame : Bytes) (ws : List WriteEv)
    (h : awaitNext (serverDecoder k) f.fd f.read t.reads = (.item (hdr, req), fd, r, evs))
    (hs : responseFor req.functionCode (svc idx hdr.unit req) = some rsp)
    (he : serverEncode k hdr rsp = .ok frame)
    (hw : f.wbuf = []) (htw : t.writes = .accept frame.length :: ws) (htf : t.flushes = []) (hne : frame ≠ []) :
    processLoop k svc (fuel + 1) idx f t tr
      = processLoop k svc fuel (idx + 1) { f with read := r, fd := fd, wbuf := [] } { t with reads := evs, writes := ws }
          (tr ++ [.call hdr.unit req] ++ [.write frame]) := by
  have h8 : ¬ (BACKPRESSURE_BOUNDARY ≤ 0) := by simp [BACKPRESSURE_BOUNDARY]
  have hfl : (({ t with reads := evs } : Transport).writes.length + ({ t with reads := evs } : Transport).flushes.length + 1)
      = (ws.length + 1) + 1 := by simp [htw, htf]
  have hfl' : t.writes.length + t.flushes.length + 1 = (ws.length + 1) + 1 := by simp [htw, htf]
  have hflush := awaitFlushS_accept frame hne (ws.length + 1) { t with reads := evs } ws htw htf
  simp only [processLoop, h, hs, hw, he, List.length_nil, ge_iff_le, h8, if_false, List.nil_append, hfl', hflush]
  simp [effectsToEvents]

/-- between two requests on a transport with a write script -/
structure BetweenW (f : ServerFramed) (t : Transport) (feeds extra : List ReadEv) (rest : Bytes)
    (ws : List WriteEv) : Prop where
  noErr : f.read.hasErrored = false
  noEof : f.read.eof = false
  clean : f.read.isReadable = false → f.read.buffer = []
  wbuf : f.wbuf = []
  writes : t.writes = ws
  flushes : t.flushes = []
  reads : t.reads = feeds ++ extra
  feed : ∀ e ∈ feeds, e.isFeed = true
  data : f.read.buffer ++ dataOf feeds = rest

/-- **n requests on a transport with a write script**: the script begins with one whole-frame
    write for each reply the n requests get (`acceptScript` of the expected trace) and goes on
    with `wtail`; the loop serves the n requests as in `processLoop_serves` and arrives between
    two requests with exactly `wtail` left -/
theorem processLoop_serves_w (k : Kind) (F : Framing (serverDecoder k)) (svc : Service) (extra : List ReadEv)
    (wtail : List WriteEv) :
    ∀ (frames : List Bytes) (fuel idx : Nat) (f : ServerFramed) (t : Transport) (tr : List SrvEvent)
      (tail : Bytes) (feeds : List ReadEv),
      (∀ x ∈ frames, F.Valid x) → (∀ x ∈ frames, x ≠ []) →
      BetweenW f t feeds extra (frames.flatten ++ tail)
        (acceptScript (expectedTrace k svc idx (frames.map F.item)) ++ wtail) →
      Encodable k svc idx (frames.map F.item) →
      ∃ f' t' feeds', processLoop k svc (fuel + frames.length) idx f t tr
          = processLoop k svc fuel (idx + frames.length) f' t' (tr ++ expectedTrace k svc idx (frames.map F.item))
        ∧ BetweenW f' t' feeds' extra tail wtail := by
  intro frames
  induction frames with
  | nil =>
    intro fuel idx f t tr tail feeds _ _ hb _
    exact ⟨f, t, feeds, by simp [expectedTrace], by simpa [expectedTrace, acceptScript] using hb⟩
  | cons x xs ih =>
    intro fuel idx f t tr tail feeds hv hne hb henc
    have hxv : F.Valid x := hv x (by simp)
    have hxne : x ≠ [] := hne x (by simp)
    have inv : FrameInv f.read x := ⟨hb.noErr, hb.noEof, fun hr => by
      rw [hb.clean hr]; exact ⟨List.nil_prefix, fun e => hxne e.symm⟩⟩
    have hdata' : f.read.buffer ++ dataOf feeds = x ++ (xs.flatten ++ tail) := by
      simpa [List.append_assoc] using hb.data
    obtain ⟨s', r', evs', g1, g2, g3, g4, g5, g6, _⟩ :=
      next_delivers_fuel F (xs.flatten ++ tail) ((feeds ++ extra).length + 1) feeds f.fd f.read x hxv
        (by simp; omega) hb.feed inv hdata'
    have g1x : awaitNext (serverDecoder k) f.fd f.read t.reads = (.item (F.item x), s', r', evs' ++ extra) := by
      unfold awaitNext
      rw [hb.reads]
      have hnb : (awaitNextFuel (serverDecoder k) ((feeds ++ extra).length + 1) f.fd f.read feeds).1 ≠ .blocked := by
        rw [g1]; simp
      rw [awaitNextFuel_append extra _ feeds f.fd f.read hnb, g1]
    obtain ⟨h, q, hq⟩ : ∃ h q, F.item x = (h, q) := ⟨(F.item x).1, (F.item x).2, rfl⟩
    rw [hq] at g1x
    simp only [List.map_cons, hq, Encodable] at henc
    obtain ⟨henc1, henc2⟩ := henc
    have e : fuel + (x :: xs).length = (fuel + xs.length) + 1 := by simp; omega
    have e2 : idx + (x :: xs).length = (idx + 1) + xs.length := by simp; omega
    have hwr := hb.writes
    simp only [List.map_cons, hq, expectedTrace] at hwr
    cases hrf : responseFor q.functionCode (svc idx h.unit q) with
    | none =>
      have step := loop_declined k svc (fuel + xs.length) idx f t tr h q s' r' (evs' ++ extra) g1x hrf
      have hwr' : t.writes = acceptScript (expectedTrace k svc (idx + 1) (xs.map F.item)) ++ wtail := by
        simpa [acceptScript, replyEvents, hrf] using hwr
      have hb' : BetweenW { f with read := r', fd := s' } { t with reads := evs' ++ extra } evs' extra (xs.flatten ++ tail)
          (acceptScript (expectedTrace k svc (idx + 1) (xs.map F.item)) ++ wtail) :=
        ⟨g4, g5, fun hr => by simp [g3] at hr, hb.wbuf, hwr', hb.flushes, rfl, g6, g2⟩
      obtain ⟨f', t', feeds', k1, k2⟩ := ih fuel (idx + 1) _ _ (tr ++ [.call h.unit q]) tail evs'
        (fun y hy => hv y (by simp [hy])) (fun y hy => hne y (by simp [hy])) hb' henc2
      refine ⟨f', t', feeds', ?_, k2⟩
      rw [e, step, k1, e2]
      simp [expectedTrace, hq, replyEvents, hrf]
    | some rsp =>
      obtain ⟨frame, he, hfne⟩ := henc1 rsp hrf
      have hwr' : t.writes = .accept frame.length :: (acceptScript (expectedTrace k svc (idx + 1) (xs.map F.item)) ++ wtail) := by
        simpa [acceptScript, replyEvents, hrf, he] using hwr
      have step := loop_answered_w k svc (fuel + xs.length) idx f t tr h q s' r' (evs' ++ extra) rsp frame _ g1x hrf he
        hb.wbuf hwr' hb.flushes hfne
      have hb' : BetweenW { f with read := r', fd := s', wbuf := [] }
          { t with reads := evs' ++ extra, writes := acceptScript (expectedTrace k svc (idx + 1) (xs.map F.item)) ++ wtail }
          evs' extra (xs.flatten ++ tail)
          (acceptScript (expectedTrace k svc (idx + 1) (xs.map F.item)) ++ wtail) :=
        ⟨g4, g5, fun hr => by simp [g3] at hr, rfl, rfl, hb.flushes, rfl, g6, g2⟩
      obtain ⟨f', t', feeds', k1, k2⟩ := ih fuel (idx + 1) _ _ (tr ++ [.call h.unit q] ++ [.write frame]) tail evs'
        (fun y hy => hv y (by simp [hy])) (fun y hy => hne y (by simp [hy])) hb' henc2
      refine ⟨f', t', feeds', ?_, k2⟩
      rw [e, step, k1, e2]
      simp [expectedTrace, hq, replyEvents, hrf, he]

/-- **the reply to request n+1 cannot be written**: `frames` (n complete requests) are served –
    the transport takes each of their replies –, then request `x` arrives and is answered, and the
    transport takes only part of that reply (in the pieces and with the `Pending`s of `ps`) before
    it fails with `kf`.  The task ends `failed kf`; the trace is exactly the n exchanges, the call
    for `x`, and a strict prefix of its reply frame; whatever follows `x` on the stream is never
    served. -/
theorem process_serves_then_write_fault (k : Kind) (F : Framing (serverDecoder k)) (svc : Service)
    (frames : List Bytes) (x after : Bytes) (t : Transport) (feeds extra : List ReadEv)
    (ps : List (Option Nat)) (fault : WriteEv) (kf : ErrKind) (wrest : List WriteEv)
    (rsp : ResponseResult) (frame : Bytes)
    (hv : ∀ y ∈ frames, F.Valid y) (hne : ∀ y ∈ frames, y ≠ []) (hxv : F.Valid x) (hxne : x ≠ [])
    (hw : t.writes = acceptScript (expectedTrace k svc 0 (frames.map F.item)) ++ (pieceEvents ps ++ fault :: wrest))
    (hf : t.flushes = [])
    (hreads : t.reads = feeds ++ extra) (hfeed : ∀ e ∈ feeds, e.isFeed = true)
    (hdata : dataOf feeds = frames.flatten ++ (x ++ after))
    (henc : Encodable k svc 0 (frames.map F.item))
    (hs : responseFor (F.item x).2.functionCode (svc frames.length (F.item x).1.unit (F.item x).2) = some rsp)
    (he : serverEncode k (F.item x).1 rsp = .ok frame)
    (hk : fault.faultKind = some kf) (hpos : ∀ n, some n ∈ ps → 0 < n) (hacc : accepted ps < frame.length) :
    (process k svc t).1 = .failed kf
    ∧ ∃ effs, (process k svc t).2.1
          = expectedTrace k svc 0 (frames.map F.item) ++ [.call (F.item x).1.unit (F.item x).2] ++ effectsToEvents effs
        ∧ writtenBytes effs = frame.take (accepted ps) := by
  have hlen : frames.length < readBytesTotal t.reads := by
    rw [readBytesTotal_eq, hreads]
    have : (dataOf feeds).length ≤ (dataOf (feeds ++ extra)).length := by
      clear hdata hfeed hreads
      induction feeds with
      | nil => simp [dataOf]
      | cons e es ih => cases e <;> simp [dataOf] <;> omega
    rw [hdata] at this
    have h3 := flatten_length_ge frames hne
    have h4 : 0 < x.length := List.length_pos_iff.mpr hxne
    simp only [List.length_append] at this; omega
  have hb : BetweenW ({} : ServerFramed) t feeds extra (frames.flatten ++ (x ++ after))
      (acceptScript (expectedTrace k svc 0 (frames.map F.item)) ++ (pieceEvents ps ++ fault :: wrest)) :=
    ⟨rfl, rfl, fun _ => rfl, rfl, hw, hf, hreads, hfeed, by simpa using hdata⟩
  obtain ⟨f', t', feeds', h1, h2⟩ := processLoop_serves_w k F svc extra (pieceEvents ps ++ fault :: wrest) frames
    (readBytesTotal t.reads + t.reads.length + 2 - frames.length) 0 {} t [] (x ++ after) feeds hv hne hb henc
  have e : readBytesTotal t.reads + t.reads.length + 2 - frames.length + frames.length
      = readBytesTotal t.reads + t.reads.length + 2 := by omega
  unfold process
  rw [e] at h1
  rw [h1]
  obtain ⟨g, hg⟩ : ∃ g, readBytesTotal t.reads + t.reads.length + 2 - frames.length = g + 1 :=
    ⟨readBytesTotal t.reads + t.reads.length + 1 - frames.length, by omega⟩
  rw [hg]
  -- request n+1 is delivered …
  have inv : FrameInv f'.read x := ⟨h2.noErr, h2.noEof, fun hr => by
    rw [h2.clean hr]; exact ⟨List.nil_prefix, fun e => hxne e.symm⟩⟩
  obtain ⟨s', r', evs', g1, _⟩ :=
    next_delivers_fuel F after ((feeds' ++ extra).length + 1) feeds' f'.fd f'.read x hxv
      (by simp; omega) h2.feed inv h2.data
  have g1x : awaitNext (serverDecoder k) f'.fd f'.read t'.reads = (.item (F.item x), s', r', evs' ++ extra) := by
    unfold awaitNext
    rw [h2.reads]
    have hnb : (awaitNextFuel (serverDecoder k) ((feeds' ++ extra).length + 1) f'.fd f'.read feeds').1 ≠ .blocked := by
      rw [g1]; simp
    rw [awaitNextFuel_append extra _ feeds' f'.fd f'.read hnb, g1]
  -- … and its reply meets the fault
  have hidx : 0 + frames.length = frames.length := by omega
  rw [hidx]
  obtain ⟨hh, q, hq⟩ : ∃ hh q, F.item x = (hh, q) := ⟨(F.item x).1, (F.item x).2, rfl⟩
  rw [hq] at g1x hs he ⊢
  simp only at hs he ⊢
  have H := loop_reply_write_fault k svc g frames.length f' t'
    ([] ++ expectedTrace k svc 0 (frames.map F.item)) hh q s' r' (evs' ++ extra) rsp frame ps fault kf wrest
    g1x hs he h2.wbuf hk h2.writes hpos hacc
  obtain ⟨H1, effs, H2, H3⟩ := H
  exact ⟨H1, effs, by simpa using H2, H3⟩

end Modbus
