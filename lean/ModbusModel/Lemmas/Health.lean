import ModbusModel.Lemmas.Client
import ModbusModel.Lemmas.Chunking
/-
  The reader of a client stays healthy (no latched error, not at end of stream)
  across calls as long as the transport does not signal end of stream.
-/
namespace Modbus

/-- the transport stays open: no end-of-stream events -/
def ReadEv.isOpen : ReadEv → Bool
  | .data bs => !bs.isEmpty
  | .eof => false
  | _ => true

def Healthy (r : ReadFrame) : Prop := r.hasErrored = false ∧ r.eof = false

variable {σ ι : Type}

theorem pre_health (D : Decoder σ ι) (s : σ) (r : ReadFrame) (h : Healthy r) :
    let res := ReadFrame.pre D s r
    res.2.2.eof = false
    ∧ (res.2.2.hasErrored = true → ∃ k, res.1 = some (.error k))
    ∧ (res.1 = none → res.2.2.hasErrored = false) := by
  obtain ⟨he, hq⟩ := h
  unfold ReadFrame.pre
  simp only [he, hq]
  cases hr : r.isReadable with
  | false => simp [he, hq]
  | true =>
    simp only [if_true]
    rcases hd : D.decode s r.buffer with ⟨res, s', b'⟩
    cases res with
    | ok o => cases o <;> simp [he, hq]
    | err k => simp [hq]
    | panic => simp [he, hq]

/-- one poll of a healthy reader on an open transport: end of stream is never recorded, and
    an error is latched exactly when the poll returned that error -/
theorem pollNext_health (D : Decoder σ ι) :
    ∀ (evs : List ReadEv) (s : σ) (r : ReadFrame), Healthy r → (∀ e ∈ evs, e.isOpen = true) →
      let res := pollNext D s r evs
      res.2.2.1.eof = false
      ∧ (res.2.2.1.hasErrored = true → ∃ k, res.1 = .error k)
      ∧ (∀ e ∈ res.2.2.2, e.isOpen = true) ∧ res.2.2.2.length ≤ evs.length := by
  intro evs
  induction evs with
  | nil =>
    intro s r h _
    have hp := pre_health D s r h
    unfold pollNext
    rcases hpre : ReadFrame.pre D s r with ⟨o, s', r'⟩
    rw [hpre] at hp
    cases o with
    | some p =>
      simp only
      refine ⟨hp.1, ?_, by simp, by simp⟩
      intro he; obtain ⟨k, hk⟩ := hp.2.1 he; exact ⟨k, by simpa using hk⟩
    | none =>
      simp only
      refine ⟨hp.1, ?_, by simp, by simp⟩
      intro he; have := hp.2.2 rfl; simp_all
  | cons e evs ih =>
    intro s r h hopen
    have hopen' : ∀ e ∈ evs, e.isOpen = true := fun x hx => hopen x (by simp [hx])
    have hp := pre_health D s r h
    unfold pollNext
    rcases hpre : ReadFrame.pre D s r with ⟨o, s', r'⟩
    rw [hpre] at hp
    cases o with
    | some p =>
      simp only
      refine ⟨hp.1, ?_, hopen, by simp⟩
      intro he; obtain ⟨k, hk⟩ := hp.2.1 he; exact ⟨k, by simpa using hk⟩
    | none =>
      have hne := hp.2.2 rfl
      cases e with
      | pending =>
        simp only
        refine ⟨hp.1, ?_, hopen', by simp⟩
        intro he; simp_all
      | err k => simp only; exact ⟨hp.1, fun _ => ⟨k, rfl⟩, hopen', by simp⟩
      | eof => have := hopen .eof (by simp); simp [ReadEv.isOpen] at this
      | data bs =>
        have hb : bs.isEmpty = false := by
          have := hopen (.data bs) (by simp)
          simpa [ReadEv.isOpen] using this
        simp only [hb]
        have := ih s' { r' with buffer := r'.buffer ++ bs, eof := false, isReadable := true }
          ⟨hne, rfl⟩ hopen'
        simp only at this
        refine ⟨this.1, this.2.1, this.2.2.1, ?_⟩
        have := this.2.2.2
        simp; omega

end Modbus

namespace Modbus

variable {σ ι : Type}

theorem awaitNextB_health (D : Decoder σ ι) :
    ∀ (fuel : Nat) (s : σ) (r : ReadFrame) (evs : List ReadEv) (b : Budget),
      Healthy r → (∀ e ∈ evs, e.isOpen = true) →
      let res := awaitNextB D fuel s r evs b
      res.2.2.1.eof = false
      ∧ (res.2.2.1.hasErrored = true → ∃ k, res.1 = .done (.error k))
      ∧ (∀ e ∈ res.2.2.2.1, e.isOpen = true) := by
  intro fuel
  induction fuel with
  | zero => intro s r evs b h ho; simp [awaitNextB, h.1, h.2]; exact ho
  | succ n ih =>
    intro s r evs b h ho
    have hp := pollNext_health D evs s r h ho
    unfold awaitNextB
    rcases hpoll : pollNext D s r evs with ⟨p, s', r', evs'⟩
    rw [hpoll] at hp
    simp only at hp
    cases p with
    | pending =>
      simp only
      have hr' : Healthy r' := ⟨by
        cases hh : r'.hasErrored with
        | false => rfl
        | true => obtain ⟨k, hk⟩ := hp.2.1 hh; simp at hk, hp.1⟩
      cases b.tick with
      | none =>
        simp only
        exact ⟨hp.1, by intro he; rw [hr'.1] at he; simp at he, hp.2.2.1⟩
      | some b' => exact ih s' r' evs' b' hr' hp.2.2.1
    | blocked =>
      simp only
      refine ⟨hp.1, ?_, hp.2.2.1⟩
      intro he; obtain ⟨k, hk⟩ := hp.2.1 he; simp at hk
    | item i =>
      simp only
      refine ⟨hp.1, ?_, hp.2.2.1⟩
      intro he; obtain ⟨k, hk⟩ := hp.2.1 he; simp at hk
    | error k => simp only; exact ⟨hp.1, fun _ => ⟨k, rfl⟩, hp.2.2.1⟩
    | done =>
      simp only
      refine ⟨hp.1, ?_, hp.2.2.1⟩
      intro he; obtain ⟨k, hk⟩ := hp.2.1 he; simp at hk
    | panic =>
      simp only
      refine ⟨hp.1, ?_, hp.2.2.1⟩
      intro he; obtain ⟨k, hk⟩ := hp.2.1 he; simp at hk

end Modbus

namespace Modbus

theorem pollFlushFuel_reads (n : Nat) (w : Bytes) (t : Transport) :
    (pollFlushFuel n w t).2.2.1.reads = t.reads := by
  induction n generalizing w t with
  | zero => simp [pollFlushFuel]
  | succ n ih =>
    unfold pollFlushFuel
    split
    · split <;> simp
    · split
      · have := ih [] t
        simp_all
      · split
        · simp
        · rename_i k ws _ _
          have := ih (w.drop (min k w.length)) { t with writes := ws }
          simp_all
      all_goals simp

theorem pollFlush_reads (w : Bytes) (t : Transport) : (pollFlush w t).2.2.1.reads = t.reads :=
  pollFlushFuel_reads _ w t

theorem awaitFlush_reads (fuel : Nat) (w : Bytes) (t : Transport) (b : Budget) (effs : List Effect) :
    (awaitFlush fuel w t b effs).2.2.1.reads = t.reads := by
  induction fuel generalizing w t b effs with
  | zero => simp [awaitFlush]
  | succ n ih =>
    unfold awaitFlush
    have hp := pollFlush_reads w t
    split
    · simp_all
    · simp_all
    · split
      · simp_all
      · rw [ih]; simp_all

theorem awaitReady_reads (w : Bytes) (t : Transport) (b : Budget) :
    (awaitReady w t b).2.2.1.reads = t.reads := by
  unfold awaitReady
  split
  · exact awaitFlush_reads _ _ _ _ _
  · rfl

/-- the reader of a connected client is healthy -/
def Client.Healthy (c : Client) : Prop := ∀ f, c.framed = some f → Modbus.Healthy f.read

/-- **a call leaves the reader healthy**: whatever the call's outcome (success, exception,
    mismatch, undecodable frame, retry overflow, read error, write error, abandoned, blocked),
    as long as the transport does not signal end of stream -/
theorem call_health (c : Client) (req : Request) (t : Transport) (b : Budget)
    (h : c.Healthy) (ho : ∀ e ∈ t.reads, e.isOpen = true) :
    (c.call req t b).2.1.Healthy ∧ (∀ e ∈ (c.call req t b).2.2.1.reads, e.isOpen = true) := by
  unfold Client.call
  split
  · exact ⟨h, ho⟩
  · cases hf : c.framed with
    | none =>
      cases hk : c.kind <;> simp only [hf, hk] <;>
        exact ⟨by intro f hf'; simp_all, ho⟩
    | some f =>
      have hfr : Modbus.Healthy f.read := h f hf
      have hcl : Modbus.Healthy { f.read with buffer := [] } := hfr
      cases hk : c.kind
      · simp only [hf, hk]
        have hr1 := awaitReady_reads f.wbuf t b
        generalize awaitReady f.wbuf t b = r1 at hr1
        rcases r1 with ⟨o, w, t1, b1, e1⟩
        simp only at hr1
        have ho1 : ∀ e ∈ t1.reads, e.isOpen = true := by rw [hr1]; exact ho
        cases o with
        | abandoned => exact ⟨by intro f' hf'; simp at hf'; subst hf'; exact hcl, ho1⟩
        | blocked => exact ⟨by intro f' hf'; simp at hf'; subst hf'; exact hcl, ho1⟩
        | done x =>
          cases x with
          | some k => exact ⟨by intro f' hf'; simp at hf'; subst hf'; exact hcl, ho1⟩
          | none =>
            simp only
            split
            · exact ⟨by intro f' hf'; simp at hf'; subst hf'; exact hcl, ho1⟩
            · exact ⟨by intro f' hf'; simp at hf'; subst hf'; exact hcl, ho1⟩
            · rename_i frame _
              have hr2 := awaitFlush_reads (t1.writes.length + t1.flushes.length + 1) (w ++ frame) t1 b1 e1
              generalize awaitFlush (t1.writes.length + t1.flushes.length + 1) (w ++ frame) t1 b1 e1 = r2 at hr2
              rcases r2 with ⟨o2, w2, t2, b2, e2⟩
              simp only at hr2
              have ho2 : ∀ e ∈ t2.reads, e.isOpen = true := by rw [hr2]; exact ho1
              cases o2 with
              | abandoned => exact ⟨by intro f' hf'; simp at hf'; subst hf'; exact hcl, ho2⟩
              | blocked => exact ⟨by intro f' hf'; simp at hf'; subst hf'; exact hcl, ho2⟩
              | done y =>
                cases y with
                | some k => exact ⟨by intro f' hf'; simp at hf'; subst hf'; exact hcl, ho2⟩
                | none =>
                  simp only
                  have hn := awaitNextB_health (clientDecoder .tcp) (t2.reads.length + 1) f.fd
                    { f.read with buffer := [] } t2.reads b2 hcl ho2
                  revert hn
                  generalize awaitNextB (clientDecoder .tcp) (t2.reads.length + 1) f.fd
                    { f.read with buffer := [] } t2.reads b2 = r3
                  rcases r3 with ⟨o3, fd3, rd3, evs3, b3⟩
                  intro hn
                  simp only at hn
                  have hnoerr : (∀ k, o3 ≠ .done (.error k)) → rd3.hasErrored = false := by
                    intro hne
                    cases hh : rd3.hasErrored with
                    | false => rfl
                    | true => obtain ⟨k, hk⟩ := hn.2.1 hh; exact absurd hk (hne k)
                  cases o3 with
                  | abandoned =>
                    exact ⟨by intro f' hf'; simp at hf'; subst hf'; exact ⟨hnoerr (by simp), hn.1⟩, hn.2.2⟩
                  | blocked =>
                    exact ⟨by intro f' hf'; simp at hf'; subst hf'; exact ⟨hnoerr (by simp), hn.1⟩, hn.2.2⟩
                  | done p =>
                    cases p with
                    | error k =>
                      exact ⟨by intro f' hf'; simp at hf'; subst hf'; exact ⟨rfl, hn.1⟩, hn.2.2⟩
                    | item i =>
                      obtain ⟨rh, res⟩ := i
                      exact ⟨by intro f' hf'; simp at hf'; subst hf'; exact ⟨hnoerr (by simp), hn.1⟩, hn.2.2⟩
                    | done =>
                      exact ⟨by intro f' hf'; simp at hf'; subst hf'; exact ⟨hnoerr (by simp), hn.1⟩, hn.2.2⟩
                    | panic =>
                      exact ⟨by intro f' hf'; simp at hf'; subst hf'; exact ⟨hnoerr (by simp), hn.1⟩, hn.2.2⟩
                    | pending =>
                      exact ⟨by intro f' hf'; simp at hf'; subst hf'; exact ⟨hnoerr (by simp), hn.1⟩, hn.2.2⟩
                    | blocked =>
                      exact ⟨by intro f' hf'; simp at hf'; subst hf'; exact ⟨hnoerr (by simp), hn.1⟩, hn.2.2⟩


      · simp only [hf, hk]
        have hr1 := awaitReady_reads f.wbuf t b
        generalize awaitReady f.wbuf t b = r1 at hr1
        rcases r1 with ⟨o, w, t1, b1, e1⟩
        simp only at hr1
        have ho1 : ∀ e ∈ t1.reads, e.isOpen = true := by rw [hr1]; exact ho
        cases o with
        | abandoned => exact ⟨by intro f' hf'; simp at hf'; subst hf'; exact hcl, ho1⟩
        | blocked => exact ⟨by intro f' hf'; simp at hf'; subst hf'; exact hcl, ho1⟩
        | done x =>
          cases x with
          | some k => exact ⟨by intro f' hf'; simp at hf'; subst hf'; exact hcl, ho1⟩
          | none =>
            simp only
            split
            · exact ⟨by intro f' hf'; simp at hf'; subst hf'; exact hcl, ho1⟩
            · exact ⟨by intro f' hf'; simp at hf'; subst hf'; exact hcl, ho1⟩
            · rename_i frame _
              have hr2 := awaitFlush_reads (t1.writes.length + t1.flushes.length + 1) (w ++ frame) t1 b1 e1
              generalize awaitFlush (t1.writes.length + t1.flushes.length + 1) (w ++ frame) t1 b1 e1 = r2 at hr2
              rcases r2 with ⟨o2, w2, t2, b2, e2⟩
              simp only at hr2
              have ho2 : ∀ e ∈ t2.reads, e.isOpen = true := by rw [hr2]; exact ho1
              cases o2 with
              | abandoned => exact ⟨by intro f' hf'; simp at hf'; subst hf'; exact hcl, ho2⟩
              | blocked => exact ⟨by intro f' hf'; simp at hf'; subst hf'; exact hcl, ho2⟩
              | done y =>
                cases y with
                | some k => exact ⟨by intro f' hf'; simp at hf'; subst hf'; exact hcl, ho2⟩
                | none =>
                  simp only
                  have hn := awaitNextB_health (clientDecoder .rtu) (t2.reads.length + 1) f.fd
                    { f.read with buffer := [] } t2.reads b2 hcl ho2
                  revert hn
                  generalize awaitNextB (clientDecoder .rtu) (t2.reads.length + 1) f.fd
                    { f.read with buffer := [] } t2.reads b2 = r3
                  rcases r3 with ⟨o3, fd3, rd3, evs3, b3⟩
                  intro hn
                  simp only at hn
                  have hnoerr : (∀ k, o3 ≠ .done (.error k)) → rd3.hasErrored = false := by
                    intro hne
                    cases hh : rd3.hasErrored with
                    | false => rfl
                    | true => obtain ⟨k, hk⟩ := hn.2.1 hh; exact absurd hk (hne k)
                  cases o3 with
                  | abandoned =>
                    exact ⟨by intro f' hf'; simp at hf'; subst hf'; exact ⟨hnoerr (by simp), hn.1⟩, hn.2.2⟩
                  | blocked =>
                    exact ⟨by intro f' hf'; simp at hf'; subst hf'; exact ⟨hnoerr (by simp), hn.1⟩, hn.2.2⟩
                  | done p =>
                    cases p with
                    | error k =>
                      exact ⟨by intro f' hf'; simp at hf'; subst hf'; exact ⟨rfl, hn.1⟩, hn.2.2⟩
                    | item i =>
                      obtain ⟨rh, res⟩ := i
                      exact ⟨by intro f' hf'; simp at hf'; subst hf'; exact ⟨hnoerr (by simp), hn.1⟩, hn.2.2⟩
                    | done =>
                      exact ⟨by intro f' hf'; simp at hf'; subst hf'; exact ⟨hnoerr (by simp), hn.1⟩, hn.2.2⟩
                    | panic =>
                      exact ⟨by intro f' hf'; simp at hf'; subst hf'; exact ⟨hnoerr (by simp), hn.1⟩, hn.2.2⟩
                    | pending =>
                      exact ⟨by intro f' hf'; simp at hf'; subst hf'; exact ⟨hnoerr (by simp), hn.1⟩, hn.2.2⟩
                    | blocked =>
                      exact ⟨by intro f' hf'; simp at hf'; subst hf'; exact ⟨hnoerr (by simp), hn.1⟩, hn.2.2⟩


end Modbus
