import ModbusModel.Lemmas.ServeEnd
/-
  How a served connection ends on malformed input: after the complete requests have been served,
  bytes that the decoder rejects (an invalid header, an undecodable request) end the task with
  exactly that one error – however the stream is cut into reads, whatever follows.
-/
namespace Modbus

variable {σ ι : Type} {D : Decoder σ ι}

/-- `bad` is rejected by the decoder with `kk`: while only a strict prefix has arrived the decoder
    waits and leaves the buffer alone; once all of it is there – whatever follows – it fails -/
structure Poison (D : Decoder σ ι) (bad : Bytes) (kk : ErrKind) : Prop where
  ne : bad ≠ []
  waits : ∀ s p q, p ++ q = bad → q ≠ [] → ∃ s', D.decode s p = (.ok none, s', p)
  errs : ∀ s x, ∃ s' b', D.decode s (bad ++ x) = (.err kk, s', b')

/-- two lists that are prefixes of one list: one is a prefix of the other -/
theorem prefix_cmp (a b x y : Bytes) (h : a ++ x = b ++ y) :
    (∃ z, a = b ++ z) ∨ (∃ q, q ≠ [] ∧ a ++ q = b) := by
  rcases List.append_eq_append_iff.mp h with ⟨z, hz, _⟩ | ⟨z, hz, _⟩
  · cases z with
    | nil => exact Or.inl ⟨[], by simpa using hz.symm⟩
    | cons c cs => exact Or.inr ⟨c :: cs, by simp, hz.symm⟩
  · exact Or.inl ⟨z, hz⟩

/-- **malformed input ends `next().await` with the decoder's error**, in every fragmentation -/
theorem awaitNextFuel_poison (bad : Bytes) (kk : ErrKind) (P : Poison D bad kk) (extra : List ReadEv) :
    ∀ (feeds : List ReadEv) (n : Nat) (s : σ) (r : ReadFrame),
      feeds.length < n → (∀ e ∈ feeds, e.isFeed = true) →
      r.hasErrored = false → r.eof = false →
      (r.isReadable = false → ∃ q, q ≠ [] ∧ r.buffer ++ q = bad) →
      (∃ x, r.buffer ++ dataOf feeds = bad ++ x) →
      (awaitNextFuel D n s r (feeds ++ extra)).1 = .error kk := by
  intro feeds
  induction feeds with
  | nil =>
    intro n s r hn _ he hq hinv ⟨x, hx⟩
    obtain ⟨n, rfl⟩ : ∃ m, n = m + 1 := ⟨n - 1, by omega⟩
    simp only [dataOf, List.append_nil] at hx
    -- everything is in the buffer: it must be readable, and the decoder fails
    have hr : r.isReadable = true := by
      cases hr : r.isReadable with
      | true => rfl
      | false =>
        obtain ⟨q, hq1, hq2⟩ := hinv hr
        have := congrArg List.length hq2
        have h2 := congrArg List.length hx
        simp at this h2
        have : q.length = 0 := by omega
        exact absurd (List.length_eq_zero_iff.mp this) hq1
    obtain ⟨s', b', hd⟩ := P.errs s x
    have hpre : ReadFrame.pre D s r = (some (.error kk), s', { r with buffer := b', hasErrored := true }) := by
      unfold ReadFrame.pre
      simp [he, hr, hq, hx, hd]
    simp only [List.nil_append]
    rw [awaitNextFuel]
    cases extra with
    | nil => rw [pollNext, hpre]
    | cons e es => rw [pollNext, hpre]
  | cons e feeds ih =>
    intro n s r hn hfeed he hq hinv ⟨x, hx⟩
    obtain ⟨n, rfl⟩ : ∃ m, n = m + 1 := ⟨n - 1, by omega⟩
    have hfeed' : ∀ y ∈ feeds, y.isFeed = true := fun y hy => hfeed y (by simp [hy])
    -- either the buffer already holds all of `bad` and is readable, or it holds a strict prefix
    have hcase : (r.isReadable = true ∧ ∃ z, r.buffer = bad ++ z) ∨ (∃ q, q ≠ [] ∧ r.buffer ++ q = bad) := by
      cases hr : r.isReadable with
      | false => exact Or.inr (hinv hr)
      | true =>
        rcases prefix_cmp _ _ _ _ hx with ⟨z, hz⟩ | h
        · exact Or.inl ⟨rfl, z, hz⟩
        · exact Or.inr h
    rcases hcase with ⟨hr, z, hz⟩ | ⟨q, hq1, hq2⟩
    · obtain ⟨s', b', hd⟩ := P.errs s z
      have hpre : ReadFrame.pre D s r = (some (.error kk), s', { r with buffer := b', hasErrored := true }) := by
        unfold ReadFrame.pre
        simp [he, hr, hq, hz, hd]
      rw [awaitNextFuel, pollNext, hpre]
    · -- a strict prefix: the poll consumes the next event
      have hpre : ∃ s1, ReadFrame.pre D s r = (none, s1, { r with isReadable := false }) := by
        unfold ReadFrame.pre
        cases hr : r.isReadable with
        | false =>
          refine ⟨s, ?_⟩
          cases r with
          | mk e' i h' b =>
            simp only at hr he
            subst hr; subst he
            simp
        | true =>
          obtain ⟨s1, hd⟩ := P.waits s r.buffer q hq2 hq1
          exact ⟨s1, by simp [he, hq, hd]⟩
      obtain ⟨s1, hpre⟩ := hpre
      cases e with
      | eof => have := hfeed .eof (by simp); simp [ReadEv.isFeed] at this
      | err k => have := hfeed (.err k) (by simp); simp [ReadEv.isFeed] at this
      | pending =>
        have hstep : pollNext D s r (.pending :: (feeds ++ extra))
            = (.pending, s1, { r with isReadable := false }, feeds ++ extra) := by
          rw [pollNext, hpre]
        rw [List.cons_append, awaitNextFuel, hstep]
        simp only [dataOf] at hx
        exact ih n s1 _ (by simp at hn; omega) hfeed' he hq (fun _ => ⟨q, hq1, hq2⟩) ⟨x, hx⟩
      | data c =>
        have hc : c ≠ [] := by
          have := hfeed (.data c) (by simp)
          simpa [ReadEv.isFeed] using this
        have hstep : pollNext D s r (.data c :: (feeds ++ extra))
            = pollNext D s1 { r with isReadable := true, buffer := r.buffer ++ c, eof := false } (feeds ++ extra) := by
          conv => lhs; unfold pollNext
          simp [hpre, hc]
        rw [List.cons_append, awaitNextFuel_congr' n _ _ _ _ _ _ hstep]
        simp only [dataOf, ← List.append_assoc] at hx
        exact ih (n + 1) s1 _ (by simp at hn; omega) hfeed' he rfl (fun h => by simp at h) ⟨x, hx⟩

/-- **how a served connection ends on malformed input**: after `frames` complete requests the
    stream carries `bad` – bytes the decoder rejects with `kk` – and then anything (`x`, and
    whatever events follow): the task ends with exactly that error; exactly the complete requests
    before that point have been served, in order, each once – and nothing after it. -/
theorem process_serves_then_poison (k : Kind) (F : Framing (serverDecoder k)) (svc : Service)
    (frames : List Bytes) (bad x : Bytes) (kk : ErrKind) (P : Poison (serverDecoder k) bad kk)
    (t : Transport) (feeds extra : List ReadEv)
    (hv : ∀ y ∈ frames, F.Valid y) (hne : ∀ y ∈ frames, y ≠ [])
    (hw : t.writes = []) (hf : t.flushes = [])
    (hreads : t.reads = feeds ++ extra) (hfeed : ∀ e ∈ feeds, e.isFeed = true)
    (hdata : dataOf feeds = frames.flatten ++ (bad ++ x))
    (henc : Encodable k svc 0 (frames.map F.item)) :
    (process k svc t).2.1 = expectedTrace k svc 0 (frames.map F.item)
    ∧ (process k svc t).1 = .failed kk := by
  have hlen : frames.length ≤ readBytesTotal t.reads := by
    rw [readBytesTotal_eq, hreads]
    have : (dataOf feeds).length ≤ (dataOf (feeds ++ extra)).length := by
      clear hdata hfeed hreads
      induction feeds with
      | nil => simp [dataOf]
      | cons e es ih => cases e <;> simp [dataOf] <;> omega
    rw [hdata] at this
    have h3 := flatten_length_ge frames hne
    rw [List.length_append] at this; omega
  have hb : BetweenX ({} : ServerFramed) t feeds extra (frames.flatten ++ (bad ++ x)) :=
    ⟨rfl, rfl, fun _ => rfl, rfl, hw, hf, hreads, hfeed, by simpa using hdata⟩
  obtain ⟨f', t', feeds', h1, h2⟩ := processLoop_serves_x k F svc extra frames
    (readBytesTotal t.reads + t.reads.length + 2 - frames.length) 0 {} t [] (bad ++ x) feeds hv hne hb henc
  have e : readBytesTotal t.reads + t.reads.length + 2 - frames.length + frames.length
      = readBytesTotal t.reads + t.reads.length + 2 := by omega
  unfold process
  rw [e] at h1
  rw [h1]
  obtain ⟨g, hg⟩ : ∃ g, readBytesTotal t.reads + t.reads.length + 2 - frames.length = g + 1 :=
    ⟨readBytesTotal t.reads + t.reads.length + 1 - frames.length, by omega⟩
  rw [hg]
  have hfl : feeds'.length < t'.reads.length + 1 := by rw [h2.reads]; simp; omega
  have hend := awaitNextFuel_poison bad kk P extra feeds' (t'.reads.length + 1) f'.fd f'.read
    hfl h2.feed h2.noErr h2.noEof
    (fun hr => ⟨bad, P.ne, by rw [h2.clean hr]; rfl⟩) ⟨x, h2.data⟩
  rw [← h2.reads] at hend
  rcases hx : awaitNext (serverDecoder k) f'.fd f'.read t'.reads with ⟨p, fd, r, evs⟩
  have hp : p = .error kk := by
    have : (awaitNext (serverDecoder k) f'.fd f'.read t'.reads).1 = .error kk := hend
    rw [hx] at this; exact this
  subst hp
  simp [processLoop, hx]

end Modbus
